#!/bin/bash
# Runs every registered check's quick tier on the current tree for the given seeds (default 2 3 4)
# and reports any run that does not exit 0.  Evidence files are restored afterwards (the committed
# evidence comes from VERIF_SEED=1).  usage: tools_seed_sweep.sh [seed ...]
cd /verif || exit 2
SEEDS="${@:-2 3 4}"
mkdir -p /tmp/sweep_ev && cp evidence/*.json /tmp/sweep_ev/
./check C01 --replay replays/C01/fixed-kf-c01-02.json > /dev/null 2>&1   # builds once
for seed in $SEEDS; do
  for id in $(python3 -c "import json; print(' '.join(c['property_id'] for c in json.load(open('MANIFEST.json'))['checks']))"); do
    VERIF_SEED=$seed nice -n 10 /verif/target/debug/gverif run $id quick > /tmp/sweep_${id}_${seed}.log 2>&1
    rc=$?
    echo "seed=$seed $id exit=$rc $(grep -a "$id quick:" /tmp/sweep_${id}_${seed}.log | tail -1)"
    if [ $rc -ne 0 ]; then grep -a -E "VIOLATION|INCONCLUSIVE" /tmp/sweep_${id}_${seed}.log | head -5; fi
  done
done
cp /tmp/sweep_ev/*.json evidence/

#!/usr/bin/env python3
"""Regenerates /verif/MANIFEST.json from the table below (single source of truth)."""
import json, subprocess
CLAIMED = {
 "C06": dict(
   technique="property-based testing: enumerated boundary-pool sweep of every std primitive + proptest-generated calls and call histories (tape-decoded), differential against fresh VMs, executed in disposable worker processes",
   text="Exploration: every function-typed field of 29 std modules is called with boundary-pool products (complete up to a cap) and with generated arguments; generated histories of failing/succeeding calls on one VM are compared step by step with fresh VMs, the stack shape and the heap size of the thread are compared before/after. A worker process per shard makes process death an ordinary observation. No absence proof.",
   note="trusts the harness's deny list (blocking / world-modifying primitives are not called) and the worker protocol; time-outs are inconclusive",
   ref="6 C06"),
}
CLAIMED["C09"]=dict(
   technique="property-based testing / fuzzing of the front end: proptest-generated text (random UTF-8, token soup, near-valid declaration soups, token-level mutants of every .glu file in the repository) through parse_partial_expr and typecheck_str in disposable worker processes; oracle = returns (no panic, no death, no hang by a CPU-time criterion) + every error span inside its file on character boundaries + errors render",
   text="Exploration: 20k (quick) to 1M (thorough) generated inputs <= 4 KiB plus a hand list and the whole corpus; 4/14 of the generated inputs are near-valid declaration soups (cyclic / divergent / ill-kinded aliases, repeated parameters, derive and malformed attributes, annotated bindings, projections, self-imports, number-like lexemes over a 4-name pool). Process death, caught panics, hangs (40 CPU seconds or 3 GiB in one front-end call), ill-formed spans and unrenderable errors are violations; four recorded known findings (checker ICEs on ill-kinded/ill-formed types, a panic inside the gluon-salsa dependency on a self-import) are matched by panic site + input feature so the search continues behind them. Found and fixed this way: layout lookahead hang, alias expansion hang, derive on empty records, holes in type definitions.",
   note="moderate nesting fixed as <= 64 generated levels on an 8 MiB stack; hang = 40 s of the worker's own CPU time (or 3 GiB resident) in one call on <= 4 KiB; a wall-clock time-out without that much CPU is inconclusive",
   ref="6 C09")
CLAIMED["C01"]=dict(
   technique="property-based testing against a reference interpreter: exhaustive enumeration of small well-typed terms + proptest/tape-driven type-directed program generator, independent big-step evaluator as oracle, values read back guided by their type",
   text="Exhaustive core: every well-typed closed term of <= 6 (quick: 13 082 terms) / <= 7 (thorough: 94 849) nodes over a reduced grammar (literals, variables, let at 7 types, lambda, application incl. partial/over-application, tuple/record construction and projection, Some, match on Option, if, #Int+, #Int<, error), each with optimisation on and off. Exploration: 8k (quick) / 200k (thorough) generated well-typed terminating programs over closures, partial/over-application, let-polymorphic helpers (incl. functions returning a record / tuple that holds a closure over their parameter), rec groups, records (>4 fields, update, projection), tuples, variants, arrays, nested/literal/as patterns, short-circuit operators, failures and host calls, printed in random legal styles and run with optimisation on and off; outcome and host-call log compared with the reference interpreter.",
   note="oracle = harness interpreter (strict CBV, left-to-right); do/seq and implicit-argument dispatch beyond the prelude operators are not generated yet; programs the front end rejects are counted inconclusive",
   ref="6 C01")
CLAIMED["C04"]=dict(
   technique="differential property-based testing: the same generated program compiled with optimisation on and off in two VMs; outcome and host-call sequence compared",
   text="Exploration: 8k (quick) / 200k (thorough) generated programs biased toward discarded bindings with host calls, failures and overflow-prone arithmetic; any difference other than a skipped arithmetic overflow is a violation.",
   note="when the unoptimised run overflows and the optimised one does not the case is counted but not compared further (the permitted difference); single-module programs only so far",
   ref="6 C04")
CLAIMED["C02"]=dict(
   technique="property-based testing of type soundness: generated well-typed programs, random AST mutants of them, multi-module programs and row-polymorphism templates, each under a random vector of compiler settings; oracle = accepted => no panic / death / shape complaint and a type-guided walk of the returned value succeeds (plus the reference outcome for unmutated programs)",
   text="Exploration: 10k (quick) / 250k (thorough) cases over {typed, mutant, modules, row-polymorphism templates} x 2^4 (2^5 thorough) setting vectors. Mutants rejected by the checker are counted; accepted ones are the interesting cases. Two recorded known findings (row-type unsoundness D5/D10) are matched by template feature + failure kind.",
   note="the soundness oracle observes what reaches the host (error class/message, value shape); it cannot see silent memory corruption that happens to produce a well-shaped value",
   ref="6 C02")
CLAIMED["C05"]=dict(
   technique="property-based testing with fault-style GC schedules: generated allocating programs run with a collection forced at every k-th allocation check (hook), swept blocks poisoned and quarantined, differential against the unstressed run, plus a Trace-driven reachability walk (no swept object, no foreign heap) and a heap-size comparison of repeated runs",
   text="Exploration: 12k (quick) / 200k (thorough) (program, k) points; an eighth are channel / reference operation sequences (C17's language) whose payloads are strings built at run time, with producer-ahead-of-consumer traffic so that a queue slot or a cell is the only owner of a fresh heap value while collections run; a fifth of the rest put the program into a module-level lazy value in the global heap forced from a stressed child thread and re-forced after the child is gone. Found and fixed: forced module-level lazies were freed by the next collection.",
   note="placements of collections are those reachable with periods {1,2,5,13} (quick) / {1,2,3,5,8,13,50}; collections triggered by concurrent OS threads are C14's; references in the global heap are not generated (need run_io at module load); the channel / reference cases compare the stressed with the unstressed log (agreement with the sequential model is C17's)",
   ref="6 C05")
CLAIMED["C12"]=dict(
   technique="round-trip / differential property-based testing: generated programs compiled to bytecode (serde_json) and run from it in the same VM, a fresh VM, via load_bytecode, and in a VM lacking the imports; generated corruptions (truncation, string edit, key deletion) of the serialised form",
   text="Exploration: 5k (quick) / 120k (thorough) programs; outcome, type text and host calls of each route must equal running the source; corruptions must return without panic and leave the VM usable; numeric corruptions are information only.",
   note="bytecode is serialised with serde_json as the repository's own test does; programs that compile_to_bytecode's expected-type-less typecheck rejects are counted inconclusive",
   ref="6 C12")
CLAIMED["C16"]=dict(
   technique="metamorphic property-based testing: the canonical rendering (value/failure, type text, diagnostics text, host calls) of a generated (well- or ill-typed) program must be byte-identical in a fresh VM, after unrelated programs in both orders, under another module name, and in a separate process",
   text="Exploration: 4k (quick) / 150k (thorough) targets x 5-6 renderings. Found and fixed: diagnostics naming an implicit import depended on what the VM had compiled before.",
   note="every 4th case adds a rendering from a separate process; crashes make a case inconclusive here (judged by C02/C06/C09)",
   ref="6 C16")
CLAIMED["C07"]=dict(
   technique="grid enumeration + property-based testing of resource limits: parametrised recursion/allocation shapes x depth x stack limit x memory limit on child threads, with hook counters for peak stack and allocations above the limit; metamorphic relation for tail calls (n = 50 vs n large); interrupt cases driven from a second OS thread",
   text="Exploration: the full grid of 14 shapes x N x 5 stack limits x up to 5 memory limits plus 3k (quick) / 60k (thorough) generated points, 2/5 of them loops whose recursive call sits under 1-4 nested generated tail contexts (if branches, match arms over Bool / tuple / Option, let, let-function, tuple- and record-pattern let bodies, a discarded binding, the right operand of ||, && and || then &&) spread over 1-3 mutually recursive functions; outcome must be the expected value or the configured limit's failure, no allocation may leave a heap above its limit, tail shapes keep their peak stack, the worker's 8 MiB native stack survives, interrupts return Interrupted within 2 s.",
   note="one recorded known finding: the out-of-memory error message itself is allocated past the limit; the 2 s interrupt bound is the only wall-clock criterion",
   ref="6 C07")
CLAIMED["C13"]=dict(
   technique="property-based testing of heap isolation: generated values moved with re_root along 8 routes of a thread tree / unrelated VM, followed by generated sequences of collect / churn / drop actions; oracle = the copy reads equal to what was sent after every action, and a Trace-driven walk from the destination's roots reaches no swept (quarantined) object and no object of a foreign heap",
   text="Exploration: 8k (quick) / 200k (thorough) (value, route, action sequence) cases. Found and fixed: arrays of strings were copied shallowly. One recorded known finding: function values moved to an unrelated VM still reference the source VM's function objects.",
   note="sharing/cycle structure inside the copy is not compared; channel/spawn routes are C17's domain",
   ref="6 C13")
CLAIMED["C15"]=dict(
   technique="model-based (stateful) property-based testing: generated edit/evaluate histories over a module graph applied to one long-lived VM; oracles = a Rust model of what the latest sources mean, a fresh VM given only the latest sources (differential), and a tick counter per module body",
   text="Exploration: 30k (quick) / 600k (thorough) histories of 4-14 steps over up to 8 module names with value/type/edge/cycle/break/repair edits through load_script and add_module, evaluations importing 1-3 modules. Found and fixed: a module loaded after a failed import of it stayed 'not found'.",
   note="with a cycle among the imports only failure-ness is compared with the fresh VM (blamed module and follow-up diagnostics depend on query order); the model still requires the error to name a module on the cycle",
   ref="6 C15")
CLAIMED["C17"]=dict(
   technique="model-based property-based testing: operation sequences over channels, references, lazies and green threads compiled into one Gluon IO program each, observations logged through host functions and compared with an executable model; exhaustive enumeration of short sequences plus proptest-generated long ones; CPU-idle stall detection for hangs",
   text="Exploration: all well-scoped main-thread sequences of length <= 4 (quick) / <= 6 (thorough) over a 9-operation alphabet in 4 scenarios, plus 6k / 200k generated sequences of up to 24 / 40 operations with up to 3 lazies (constant, failing, self-dependent) and 3 green threads. A third of the generated sequences carry run-time built strings instead of Ints through channels and references, most of those with channel-heavy traffic and under a GC schedule (collection at every k-th allocation check, swept blocks poisoned), so that delivery is also checked while the queue is the only owner of the message. Found and fixed: forces of a failed lazy from another thread hung; resuming a thread that died re-entered the failed call.",
   note="thunks never yield; only the main thread spawns/resumes; GC schedules need the `verif` hooks H1/H2; hang = no answer and no CPU consumed for 3 s in a workload without sleeps or I/O",
   ref="6 C17")
CLAIMED["C19"]=dict(
   technique="model-based property-based testing: generated programs over std.map / std.list / std.array / std.string / std.json / #[derive] with literal inputs; expected results computed by Rust reference models (BTreeMap, Vec/slice::sort, str, serde_json, structural equality, a Show renderer) at generation time",
   text="Exploration: 40k (quick) / 600k (thorough) programs over 7 sub-models: map operation sequences with colliding Int/String keys, list and array functions incl. out-of-range index/slice (must be errors), string functions at arbitrary byte indices over multi-byte text, JSON round trips of generated record/variant types against serde_json, derived Eq/Show on generated algebraic types with pairs differing in the last leaf. Found and fixed: floats changed by one ulp in a JSON round trip.",
   note="inputs are program literals (marshalling is C11's); JSON variants are restricted to what the untagged derived encoding can round-trip; sort stability is not asserted",
   ref="6 C19")
CLAIMED["C11"]=dict(
   technique="property-based round-trip testing over a closed family of Rust types: per monomorphic type a tape decoder for values, bitwise equality, the expected Gluon observation and a Gluon literal; routes = push/get, type-guided observation, Gluon identity function, serde bridge in both directions, literal read as T; plus the complete type-refusal matrix (run_expr::<U>, get_global::<U>)",
   text="Exploration: 60k (quick) / 1.5M (thorough) values over 55 types (scalars incl. boundary ints, NaN payloads, -0.0, NUL and multi-byte strings; Option/Result/Vec/tuple/BTreeMap nestings to depth 3; 7 derived structs incl. reordered fields and a newtype; 4 derived enums), 5-7 routes each; the 55x55 refusal matrix through two APIs is complete. Found and fixed: three De defects (unbounded recursion, tuples, unit). Three recorded known findings (Ser is not type directed; De<Result> by index; De of maps).",
   note="for types containing a constructor named in KF-C11-01/02/03 the affected serde route is matched against that finding (by route name + type feature); all other routes of those values are still enforced",
   ref="6 C11")
CLAIMED["C08"]=dict(
   technique="exhaustive enumeration + round-trip property-based testing: (a) every operator chain over a 12-operator fixity table pushed through parse/metadata/reparse_infix and compared with a declarative grouping rule incl. the conflict error; (b) proptest-generated programs printed in random legal concrete styles, parsed by gluon's parser and compared with the generated tree (canonical S-expressions), plus span invariants over the whole parsed tree",
   text="Exploration: (a) complete: 77k chains (quick: <=4 operators over all 12, 5-6 over the 6 declared; thorough one longer); (b) 20k (quick) / 500k (thorough) programs x styles {explicit in, layout, redundant parentheses, line comments, block comments (runs of `*`, `/*`, `//`, quotes, line breaks inside), blank lines, CRLF}; spans must be inside the source, on char boundaries, nested, ordered, and cover exactly the identifier / operator / field name. Found and fixed: the span of #Int+ style operators covered only '#'.",
   note="the printer parenthesises operands of infix expressions, so precedence-driven grouping is decided by (a) only; doc comments are not generated in (b)",
   ref="6 C08")
CLAIMED["C10"]=dict(
   technique="metamorphic / round-trip property-based testing of the formatter: generated programs printed in random legal styles (comments, long lines, explicit in, CRLF) and every .glu file of the repository under whitespace perturbation; oracle = formatted text parses to the same canonical tree (after macro expansion and infix regrouping, as format_expr does), same comment sequence, byte-identical literal tokens, second formatting is the identity",
   text="Exploration: 60k (quick) / 1M (thorough) generated programs + 96 repository files x 4 (8) perturbations. A tenth of the generated cases are un-parenthesised operator chains over prelude operators, # primitives and locally defined operators with and without #[infix], with and without the implicit prelude; a fifth of the rest run with the prelude off (operators of unknown fixity). Found and fixed: any let written with `in` was formatted to unparseable text; comments after a rec group's `in` were dropped; operator chains with an operator of unknown fixity were printed with permuted operators. Two recorded known findings: comments in positions the formatter never looks at are dropped (comments next to let bindings are still enforced), and broken tuples are re-indented by a second pass.",
   note="comment positions are classified by the harness (see safe_comments); only the loss of comments outside the enforced positions and a whitespace-only second-pass difference on a broken tuple are matched against the known findings; everything else is a violation",
   ref="6 C10")
CLAIMED["C18"]=dict(
   technique="round-trip property-based testing of the type printer: generated type sources (and the types inferred for generated programs) are checked by gluon to obtain the ArcType the system builds, rendered by TypeFormatter at 6 widths, parsed back with gluon's parser in two syntactic contexts, and compared as canonical trees",
   text="Exploration: 8k (quick) / 250k (thorough) types x widths {20,40,60,80,120,200} x contexts {type alias right-hand side, binding annotation}: functions and foralls in argument position, implicit arguments, applications, tuples, records with operator fields and row tails, effect rows, declared variants (ordinary, GADT-style, under a quantifier) and records, tuple-like field names (_0, _01), open rows with 0-2 tuple fields, module records with type fields whose definitions are each rendered and read back on their own. Found and fixed: non-tuples printed as tuples (open rows, single _0 field, zero-padded names). Two recorded known findings: a record type field whose definition is a variant, and a variant under a quantifier, are printed in forms the grammar rejects.",
   note="comparison is at parser level (names by last path component); generated sources the checker rejects are counted and skipped",
   ref="6 C18")
CLAIMED["C20"]=dict(
   technique="property-based testing / fuzzing of the editor queries: generated programs in complete, truncated and token-deleted form; every byte offset queried with all position queries on the (salvaged) typechecked tree; agreement oracle = the type the checker stored at each identifier occurrence and a lexical-scope model recomputed by the harness",
   text="Exploration: 6k (quick) / 30k (thorough) programs x (1 + 6 (16) variants) x every byte offset x 8 queries (~10^8 queries in quick): no panic; on complete programs find at the first/middle/last byte of every identifier occurrence and of every binding occurrence (pattern variables, parameters) equals the checker's type for it, and no program binder is suggested where it is not lexically visible (checked at the end of every identifier and at the first byte of every let / rec / match / if keyword). Found and fixed: panics inside [], on annotated expressions and on unit patterns; names suggested on the keyword that precedes their binding.",
   note="the checker's type for an occurrence is read from the typed tree the checker produced; globals of the environment among the suggestions are not judged",
   ref="6 C20")
CLAIMED["C14"]=dict(
   technique="randomised concurrency stress with a differential oracle (property-based generation of rounds): T OS threads on sibling Gluon threads of one VM run generated programs with overlapping imports of not-yet-loaded modules and allocation-heavy programs under forced collections while a collector thread collects the root; results compared with the same programs run alone; tick counters for once-ness; CPU-idle stall detection for deadlock",
   text="Exploration: 3k (quick) / 60k (thorough) rounds x 2/4/8 (16) OS threads x 3-7 (11) programs, GC stress period in {0,1,2,5,13} with quarantined sweeps, a spinning root collector in 2/3 of the rounds; half of the rounds start every thread with one and the same program over field names and strings the VM has never seen (concurrent first-time interning), a third run all expressions of all threads under one expression name. Found and fixed: a source map shared by name between threads. No absence claim: interleavings are sampled by the OS scheduler, not enumerated.",
   note="default executor only (tokio VM not exercised); schedule perturbation hook H5 of the design was not needed so far and is not built; a stall is reported only when the worker consumed no CPU for 3 s",
   ref="6 C14")
CLAIMED["C03"]=dict(
   technique="property-based testing against an independent algorithm W: terms of the ML fragment from an untyped generator (let-polymorphism, rows), from typed-by-construction programs printed without annotations, and from AST mutants; W (levels, ordered closed rows, open rows) decides typability and the principal type; Gluon must accept what W types and report an equivalent type; metamorphic relations (renaming binders, unused binding, annotation with the printed type)",
   text="Exploration: 8k (quick) / 400k (thorough) terms (half from the untyped generator, which also puts match / if with function-, record- and option-valued alternatives into positions without an expected type), 4 checker runs each for the terms W types (about 2/3). Found and fixed: a generalised variable captured by the forall of a record field. Five recorded known findings, four rooted in eager generalisation: pattern lets against a generalised right-hand side, separately generalised record/tuple fields that do not unify (also makes the reported type non-principal and the annotation relation fail), generalised match scrutinees, and open tuple rows printed in unparseable form; plus the row defect of KF-C02-01 seen as a closed row reported open.",
   note="only W-typable terms are judged (the converse is not asserted); known findings are matched by features of the checker's error text (quantifier inside a component, marked span at a field initialiser / tuple or array component, reported type that splits but never merges variables, rigid variable vs concrete type, `(a | r)` rendering, closed row reported open), anything else is a violation",
   ref="6 C03")
NOT_YET = {}
def main():
    props=[json.loads(l) for l in open('/verif/properties.jsonl')]
    hooks_commits = subprocess.run(['git','-C','/repo','log','--format=%h %s'],capture_output=True,text=True).stdout.splitlines()
    hook_commits=[l.split()[0] for l in hooks_commits if l.split(' ',1)[1].startswith('verif hook')]
    checks=[]
    for p in props:
        i=p['id']
        if i in CLAIMED:
            c=CLAIMED[i]
            checks.append(dict(property_id=i, quick_cmd=f"./check {i} quick", thorough_cmd=f"./check {i} thorough",
                evidence_file=f"/verif/evidence/{i}.json", replay_cmd_template=f"./check {i} --replay {{path}}", engine="gverif",
                level_claimed=dict(category="exploration", text=c['text'], design_ref=c['ref']), level_note=c['note'], technique=c['technique']))
    na=[dict(property_id=p['id'], reason=NOT_YET.get(p['id'],"check not built/validated yet in this session (see DESIGN.md section 6 for the design); claimed once its check is validated on the unchanged tree")) for p in props if p['id'] not in CLAIMED]
    m=dict(version=1,
      setup_cmd="cd /verif/harness && CARGO_NET_OFFLINE=true cargo build --offline",
      hooks=dict(guard="cargo feature `verif` of gluon_vm (pass-through feature `verif` on gluon)",
                 enable="the harness crate depends on /repo by path with features [\"verif\"]; cargo build in ./check rebuilds from the working tree",
                 baseline_off_cmd="cd /repo && cargo nextest run --workspace --no-fail-fast --tool-config-file pb:/w/lib/nextest.toml --profile pb --test-threads 8 --offline",
                 source_commits=hook_commits, add_only=True),
      engines=[dict(name="gverif", path="/verif/harness", serves_properties=sorted(CLAIMED.keys()),
                    kind_free_text="Rust driver/worker harness: proptest TestRunner over choice tapes, enumerated cores, worker processes for crash attribution, replay files, known-findings table")],
      checks=checks, not_applicable=na,
      notes="See DESIGN.md. known_findings.json lists fixed defects (fix: commits in /repo) and recorded findings.")
    json.dump(m,open('/verif/MANIFEST.json','w'),indent=1)
main()

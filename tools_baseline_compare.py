#!/usr/bin/env python3
"""Compares a `cargo test --workspace` log with BASELINE.json's stable_pass list.
usage: tools_baseline_compare.py <log>"""
import json,re,sys
base=json.load(open('/root/.vp/BASELINE.json'))
stable=set(base['stable_pass'])
log=open(sys.argv[1],errors='replace').read()
passed=set(); failed=set(); cur=None
for line in log.split('\n'):
    m=re.match(r'\s*Running (?:unittests )?(\S+) \(\S*?/deps/([A-Za-z0-9_]+)-[0-9a-f]+\)',line)
    if m:
        cur=m.group(2); continue
    m=re.match(r'\s*Doc-tests (\S+)',line)
    if m:
        cur='doctest:'+m.group(1); continue
    m=re.match(r'test (.+?) \.\.\. (ok|FAILED|ignored)',line)
    if m and cur:
        name=m.group(1); 
        (passed if m.group(2)=='ok' else failed if m.group(2)=='FAILED' else set()).add((cur,name))
names_pass=set()
for b,n in passed:
    names_pass.add(f"{b}::{n}"); names_pass.add(n)
    if b.startswith('doctest:'): names_pass.add(f"{b}::{n}")
missing=[s for s in stable if s not in names_pass and s.split('::',1)[-1] not in names_pass]
# doctest names in baseline look like "doctest:gluon::src/lib.rs - ThreadExt::run_expr (line 686)"
missing2=[]
for s in missing:
    if s.startswith('doctest:'):
        t=s.split('::',1)[1]
        if any(n==t for b,n in passed): continue
    missing2.append(s)
print("stable_pass:",len(stable),"passed entries in log:",len(passed),"failed:",sorted(failed)[:10])
print("stable tests not seen passing:",len(missing2)); print('\n'.join(missing2[:30]))

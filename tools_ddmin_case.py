#!/usr/bin/env python3
"""ddmin on the `src` field of a case: tools_ddmin_case.py <Cxx> <replay.json> <needle> [field]"""
import sys, subprocess, re, tempfile, os, json
prop=sys.argv[1]; rep=json.load(open(sys.argv[2])); needle=sys.argv[3]; field=sys.argv[4] if len(sys.argv)>4 else 'src'
case=rep['case'] if 'case' in rep else rep
def fails(text):
    c=dict(case); c[field]=text
    with tempfile.NamedTemporaryFile('w',suffix='.json',delete=False) as f:
        json.dump({'case':c},f); name=f.name
    try:
        r=subprocess.run(['/verif/target/debug/gverif','probe-case',prop,name],capture_output=True,text=True,timeout=60)
        out=r.stdout+r.stderr
    except subprocess.TimeoutExpired:
        out="TIMEOUT"
    os.unlink(name)
    return needle in out
def ddmin(parts, join):
    n=2
    while len(parts)>=2:
        chunk=max(1,len(parts)//n); reduced=False
        for i in range(0,len(parts),chunk):
            cand=parts[:i]+parts[i+chunk:]
            if cand and fails(join(cand)):
                parts=cand; n=max(n-1,2); reduced=True; break
        if not reduced:
            if chunk==1: break
            n=min(n*2,len(parts))
    return parts
src=case[field]
assert fails(src), "input does not fail"
lines=ddmin(src.split('\n'), lambda p:'\n'.join(p))
text='\n'.join(lines)
toks=re.findall(r'\s+|\w+|[^\w\s]',text)
toks=ddmin(toks, lambda p:''.join(p))
print(''.join(toks))

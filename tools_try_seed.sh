#!/bin/bash
# usage: tools_try_seed.sh <patch.diff> <Cxx> [<Cyy> ...]   (env TIER=quick|thorough)
# applies a seeded change to /repo, runs the named checks, and always restores /repo.
set -u
patch="$1"; shift
tier="${TIER:-quick}"
cd /repo || exit 2
if ! git diff --quiet; then echo "/repo has local changes; refusing" >&2; exit 2; fi
git apply "$patch" || exit 2
trap 'git -C /repo checkout -- . ; git -C /verif checkout -- evidence ; find /verif/replays -name "viol-*.json" -delete ; echo "[/repo, evidence, replays restored]"' EXIT
for id in "$@"; do
  echo "=== $id $tier with $(basename $(dirname $patch)) applied"
  (cd /verif && ./check "$id" "$tier" 2>&1 | grep -E "VIOLATION|KNOWN-FINDING|INCONCLUSIVE|^C[0-9]+ " | cut -c1-400 | head -20)
  echo "exit=${PIPESTATUS[0]}"
done

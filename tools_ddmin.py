#!/usr/bin/env python3
"""ddmin over lines then tokens: tools_ddmin.py <file> <needle> [bits]  (uses gverif probe)"""
import sys, subprocess, re, tempfile, os
src=open(sys.argv[1]).read(); needle=sys.argv[2]; bits=sys.argv[3] if len(sys.argv)>3 else "0"
def fails(text):
    with tempfile.NamedTemporaryFile('w',suffix='.glu',delete=False) as f:
        f.write(text); name=f.name
    try:
        r=subprocess.run(['/verif/target/debug/gverif','probe',name,bits],capture_output=True,text=True,timeout=60)
        out=r.stdout+r.stderr
    except subprocess.TimeoutExpired:
        out="TIMEOUT"
    os.unlink(name)
    return needle in out
def ddmin(parts, join):
    n=2
    while len(parts)>=2:
        chunk=max(1,len(parts)//n); reduced=False
        for i in range(0,len(parts),chunk):
            cand=parts[:i]+parts[i+chunk:]
            if cand and fails(join(cand)):
                parts=cand; n=max(n-1,2); reduced=True; break
        if not reduced:
            if chunk==1: break
            n=min(n*2,len(parts))
    return parts
assert fails(src), "input does not fail"
lines=ddmin(src.split('\n'), lambda p:'\n'.join(p))
text='\n'.join(lines)
toks=re.findall(r'\s+|\w+|[^\w\s]',text)
toks=ddmin(toks, lambda p:''.join(p))
print(''.join(toks))

#!/bin/bash
# usage: tools_confirm_seed.sh <seed dir with patch.diff and demo.rs>
# runs the demonstration test in /repo with and without the change; always restores /repo.
set -u
d="$1"
cd /repo || exit 2
if ! git diff --quiet; then echo "/repo has local changes; refusing" >&2; exit 2; fi
trap 'git -C /repo checkout -- . ; rm -f /repo/tests/seed_demo.rs; echo "[/repo restored]"' EXIT
cp "$d/demo.rs" /repo/tests/seed_demo.rs
run() { CARGO_NET_OFFLINE=true cargo test --offline -p gluon --features "serialization gluon_completion" --test seed_demo 2>&1 | grep -E "^test |test result|error(\[|:)" | head -20; }
echo "--- without the change"; run
git apply "$d/patch.diff" || exit 2
echo "--- with the change"; run

#!/bin/bash
# Runs the repository's own test suite (hooks off) and compares with the pinned baseline.
# Also checks tests/main.rs (not part of the pinned list, but 178 of its 180 tests pass at the
# pinned commit and a regression there once went unnoticed).
cd /repo || exit 2
timeout 3000 cargo test --workspace --no-fail-fast --offline > /tmp/suite_full.log 2>&1
echo "cargo test exit=$?"
python3 /verif/tools_baseline_compare.py /tmp/suite_full.log
grep -a "test result:.*filtered$" /tmp/suite_full.log | sed 's/\x1b\[[0-9;]*m//g' | tail -2

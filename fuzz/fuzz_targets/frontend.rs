//! C09 under coverage guidance: any UTF-8 text <= 4 KiB through parse_partial_expr and
//! typecheck_str; the oracle of props/c09.rs (returns, spans inside the input on character
//! boundaries, errors render) inside the target.  Listed known findings are tolerated by panic
//! site / input feature so that a campaign does not rediscover them forever.
#![no_main]
use std::cell::RefCell;
use std::sync::atomic::{AtomicU64, Ordering};

use gluon::base::error::InFile;
use gluon::base::pos::{BytePos, Spanned};
use gluon::base::types::TypeCache;
use gluon::{RootedThread, ThreadExt};
use libfuzzer_sys::fuzz_target;

thread_local! {
    static VM: RefCell<Option<RootedThread>> = RefCell::new(None);
    static LAST_PANIC: RefCell<String> = RefCell::new(String::new());
}
static RUNS: AtomicU64 = AtomicU64::new(0);
static SKIPPED_KNOWN: AtomicU64 = AtomicU64::new(0);
static TOLERATED_KNOWN: AtomicU64 = AtomicU64::new(0);

fn check_infile<E: std::fmt::Display>(inf: &InFile<E>, problems: &mut Vec<String>) {
    let errs: &gluon::base::error::Errors<Spanned<E, BytePos>> = inf.errors();
    for e in errs.iter() {
        let (a, b) = (e.span.start(), e.span.end());
        if a > b {
            problems.push(format!("span start {} > end {}", a, b));
            continue;
        }
        match inf.source().get(a) {
            None => problems.push(format!("span start {} lies in no source file ({})", a, e.value.to_string().lines().next().unwrap_or(""))),
            Some(fm) => {
                let fs = fm.span();
                if a < fs.start() || b > fs.end() {
                    problems.push(format!("span {}..{} outside its file", a, b));
                    continue;
                }
                let ra = a.to_usize() - fs.start().to_usize();
                let rb = b.to_usize() - fs.start().to_usize();
                if !fm.source().is_char_boundary(ra) || !fm.source().is_char_boundary(rb) {
                    problems.push(format!("span {}..{} not on character boundaries", a, b));
                }
            }
        }
    }
}

fn check_error(e: &gluon::Error, problems: &mut Vec<String>) {
    use gluon::Error as E;
    match e {
        E::Parse(inf) => check_infile(inf, problems),
        E::Typecheck(inf) => check_infile(inf, problems),
        E::Macro(inf) => check_infile(inf, problems),
        E::Multiple(es) => {
            for x in es.iter() {
                check_error(x, problems)
            }
        }
        _ => {}
    }
}

fn strict() -> bool {
    std::env::var("GVERIF_FUZZ_STRICT").is_ok()
}

fuzz_target!(init: {
    // libfuzzer-sys aborts on every panic; panics of listed known findings are survived instead
    std::panic::set_hook(Box::new(|info| {
        let msg = info.to_string();
        LAST_PANIC.with(|p| *p.borrow_mut() = msg);
    }));
}, |data: &[u8]| {
    let src = match std::str::from_utf8(data) {
        Ok(s) if s.len() <= 4096 => s,
        _ => return,
    };
    RUNS.fetch_add(1, Ordering::Relaxed);
    // KF-C09-04 (native stack overflow on ill-formed effect rows) cannot be survived in-process
    if !strict() && src.contains("[|") {
        SKIPPED_KNOWN.fetch_add(1, Ordering::Relaxed);
        return;
    }
    let vm = VM.with(|v| v.borrow_mut().get_or_insert_with(|| gluon::new_vm()).clone());
    vm.get_database_mut().set_implicit_prelude(data.first().map(|b| b & 1 == 1).unwrap_or(false));
    let r = std::panic::catch_unwind(std::panic::AssertUnwindSafe(|| {
        let mut problems: Vec<String> = vec![];
        if let Err(salvage) = vm.parse_partial_expr(&TypeCache::new(), "c09", src) {
            check_infile(&salvage.error, &mut problems);
            match salvage.error.emit_string() {
                Ok(s) if !s.trim().is_empty() => {}
                _ => problems.push("parse errors do not render".into()),
            }
        }
        if let Err(e) = vm.typecheck_str("c09", src, None) {
            check_error(&e, &mut problems);
            match e.emit_string() {
                Ok(s) if !s.trim().is_empty() => {}
                _ => problems.push("errors do not render".into()),
            }
        }
        problems
    }));
    match r {
        Ok(problems) => {
            let known = !strict()
                && src.contains("derive(")
                && problems.iter().all(|p| p.contains("span start 0 lies in no source file (Kind mismatch"));
            if !problems.is_empty() && !known {
                eprintln!("GVERIF-FUZZ problem: {}", problems.join("; "));
                std::process::abort();
            }
            if known && !problems.is_empty() {
                TOLERATED_KNOWN.fetch_add(1, Ordering::Relaxed);
            }
        }
        Err(_) => {
            let msg = LAST_PANIC.with(|p| p.borrow().clone());
            let known = !strict()
                && (msg.contains("Expected variable to not have a type associated with it")
                    || (msg.contains("gluon-salsa") && src.contains("import! c09")));
            // a panic may leave the VM's compiler state poisoned: start from a fresh one
            VM.with(|v| *v.borrow_mut() = None);
            if !known {
                eprintln!("GVERIF-FUZZ panic: {}", msg);
                std::process::abort();
            }
            TOLERATED_KNOWN.fetch_add(1, Ordering::Relaxed);
        }
    }
});

//! C18 — printed types read back as the same type.
//!
//! Types are generated as Gluon source (with the declarations they need), pushed through the
//! checker to obtain the `ArcType` the system itself builds, rendered at several widths, parsed
//! back with gluon's parser only (as the right-hand side of a type alias, and as an annotation),
//! and both sides are compared as canonical trees.
use gluon::base::ast::{Expr, SpannedExpr, ValueBindings};
use gluon::base::symbol::Symbol;
use gluon::base::types::{ArcType, ArgType, BuiltinType, Type, TypeCache, TypePtr};
use gluon::ThreadExt;
use serde_json::{json, Value};

use crate::engine::*;
use crate::gl::{self, Settings};
use crate::tape::{fnv, Tape};

pub struct C18;

// ---- canonical trees ------------------------------------------------------------------------

fn clean_name(s: &str) -> String {
    // `name:123` (renamed symbol) -> name; `std.types.Option` -> Option; operators unchanged
    let s = match s.rsplit_once(':') {
        Some((a, b)) if !a.is_empty() && !b.is_empty() && b.chars().all(|c| c.is_ascii_digit()) => a,
        _ => s,
    };
    let ident_like = s.chars().all(|c| c.is_alphanumeric() || c == '_' || c == '.' || c == '\'');
    if ident_like {
        s.rsplit('.').next().unwrap_or(s).to_string()
    } else {
        s.to_string()
    }
}

struct Canon {
    bound: Vec<(String, String)>,
    next: usize,
}

impl Canon {
    fn generic(&self, n: &str) -> String {
        for (k, v) in self.bound.iter().rev() {
            if k == n {
                return v.clone();
            }
        }
        format!("free:{}", n)
    }

    fn row<T>(&mut self, t: &T) -> String
    where
        T: TypePtr,
        T::Id: AsRef<str>,
        T::SpannedId: AsRef<str>,
    {
        let mut out = String::new();
        let mut cur = t;
        loop {
            match &**cur {
                Type::ExtendRow { fields, rest } => {
                    for f in fields.iter() {
                        out.push_str(&format!(" (field {} {})", clean_name(f.name.as_ref()), self.ty(&f.typ)));
                    }
                    cur = rest;
                }
                Type::ExtendTypeRow { types, rest } => {
                    for f in types.iter() {
                        // the definition that is printed after `=` (with the parameters bound)
                        let mut pushed = 0;
                        for p in f.typ.params().iter() {
                            let n = format!("g{}", self.next);
                            self.next += 1;
                            self.bound.push((p.id.as_ref().to_string(), n));
                            pushed += 1;
                        }
                        let body = {
                            let b = f.typ.unresolved_type();
                            let b = match &**b {
                                Type::Forall(_, inner) if pushed > 0 => inner,
                                _ => b,
                            };
                            self.ty(b)
                        };
                        for _ in 0..pushed {
                            self.bound.pop();
                        }
                        out.push_str(&format!(" (tfield {} {} {})", clean_name(f.name.as_ref()), f.typ.params().len(), body));
                    }
                    cur = rest;
                }
                Type::EmptyRow => break,
                _ => {
                    out.push_str(&format!(" | {}", self.ty(cur)));
                    break;
                }
            }
        }
        out
    }

    fn variant_row<T>(&mut self, t: &T) -> String
    where
        T: TypePtr,
        T::Id: AsRef<str>,
        T::SpannedId: AsRef<str>,
    {
        let mut out = String::new();
        let mut cur = t;
        loop {
            match &**cur {
                Type::ExtendRow { fields, rest } => {
                    for f in fields.iter() {
                        // constructor type: A -> B -> Result; the arguments are what is written
                        let mut args = vec![];
                        let mut ct = &f.typ;
                        // a GADT-style constructor may be quantified
                        let mut pushed = 0;
                        if let Type::Forall(params, inner) = &**ct {
                            for p in params.iter() {
                                let n = format!("g{}", self.next);
                                self.next += 1;
                                self.bound.push((p.id.as_ref().to_string(), n));
                                pushed += 1;
                            }
                            ct = inner;
                        }
                        loop {
                            match &**ct {
                                Type::Function(ArgType::Explicit, a, r) => {
                                    args.push(self.ty(a));
                                    ct = r;
                                }
                                Type::App(f, fargs) if matches!(&**f, Type::Builtin(BuiltinType::Function)) && fargs.len() == 2 => {
                                    args.push(self.ty(&fargs[0]));
                                    ct = &fargs[1];
                                }
                                _ => break,
                            }
                        }
                        for _ in 0..pushed {
                            self.bound.pop();
                        }
                        out.push_str(&format!(" (ctor {}{})", clean_name(f.name.as_ref()), args.iter().map(|a| format!(" {}", a)).collect::<String>()));
                    }
                    cur = rest;
                }
                Type::EmptyRow => break,
                _ => {
                    out.push_str(&format!(" | {}", self.ty(cur)));
                    break;
                }
            }
        }
        out
    }

    fn ty<T>(&mut self, t: &T) -> String
    where
        T: TypePtr,
        T::Id: AsRef<str>,
        T::SpannedId: AsRef<str>,
    {
        match &**t {
            Type::Hole => "_".into(),
            Type::Opaque => "<opaque>".into(),
            Type::Error => "!".into(),
            Type::Builtin(b) => b.to_str().to_string(),
            Type::Forall(params, inner) => {
                // adjacent quantifiers are one quantifier
                let mut names = vec![];
                let mut pushed = 0;
                let mut cur_params: Vec<String> = params.iter().map(|p| p.id.as_ref().to_string()).collect();
                let mut inner = inner;
                loop {
                    for p in cur_params.drain(..) {
                        let n = format!("g{}", self.next);
                        self.next += 1;
                        self.bound.push((p, n.clone()));
                        names.push(n);
                        pushed += 1;
                    }
                    match &**inner {
                        Type::Forall(p2, i2) => {
                            cur_params = p2.iter().map(|p| p.id.as_ref().to_string()).collect();
                            inner = i2;
                        }
                        _ => break,
                    }
                }
                let body = self.ty(inner);
                for _ in 0..pushed {
                    self.bound.pop();
                }
                format!("(forall ({}) {})", names.join(" "), body)
            }
            Type::App(f, args) => {
                if let Type::Builtin(BuiltinType::Function) = &**f {
                    if args.len() == 2 {
                        return format!("(fn {} {})", self.ty(&args[0]), self.ty(&args[1]));
                    }
                }
                // nested applications are one application
                let mut head = f;
                let mut all: Vec<String> = args.iter().map(|a| self.ty(a)).collect();
                while let Type::App(f2, args2) = &**head {
                    let mut front: Vec<String> = args2.iter().map(|a| self.ty(a)).collect();
                    front.extend(all);
                    all = front;
                    head = f2;
                }
                format!("(app {}{})", self.ty(head), all.iter().map(|a| format!(" {}", a)).collect::<String>())
            }
            Type::Function(ArgType::Explicit, a, r) => format!("(fn {} {})", self.ty(a), self.ty(r)),
            Type::Function(_, a, r) => format!("(ifn {} {})", self.ty(a), self.ty(r)),
            Type::Record(row) => format!("(record{})", self.row(row)),
            Type::Variant(row) => format!("(variant{})", self.variant_row(row)),
            Type::Effect(row) => format!("(effect{})", self.row(row)),
            Type::EmptyRow => "(emptyrow)".into(),
            Type::ExtendRow { .. } | Type::ExtendTypeRow { .. } => format!("(row{})", self.row(t)),
            Type::Ident(id) => clean_name(id.name.as_ref()),
            Type::Projection(ids) => ids.last().map(|i| clean_name(i.as_ref())).unwrap_or_default(),
            Type::Variable(v) => format!("?{}", v.id),
            Type::Generic(g) => self.generic(g.id.as_ref()),
            Type::Alias(a) => clean_name(a.name.as_ref()),
            Type::Skolem(s) => self.generic(s.name.as_ref()),
        }
    }
}

pub fn canon<T>(t: &T) -> String
where
    T: TypePtr,
    T::Id: AsRef<str>,
    T::SpannedId: AsRef<str>,
{
    let mut c = Canon { bound: vec![], next: 0 };
    // free generics get names in order of first occurrence so that both sides agree
    c.ty(t)
}

/// renames `free:x` generics by first occurrence (printing may rename nothing, but quantifier
/// stripping by `type X = forall a . ..` does)
fn normalise_free(s: &str) -> String {
    let mut out = String::new();
    let mut names: Vec<String> = vec![];
    let mut rest = s;
    while let Some(p) = rest.find("free:") {
        out.push_str(&rest[..p]);
        let after = &rest[p + 5..];
        let end = after.find(|c: char| c == ' ' || c == ')').unwrap_or(after.len());
        let n = &after[..end];
        let idx = match names.iter().position(|x| x == n) {
            Some(i) => i,
            None => {
                names.push(n.to_string());
                names.len() - 1
            }
        };
        out.push_str(&format!("f{}", idx));
        rest = &after[end..];
    }
    out.push_str(rest);
    out
}

// ---- generation of type sources ---------------------------------------------------------------

struct TyGen<'t, 'a> {
    t: &'t mut Tape<'a>,
    /// declared type constructors: (name, number of parameters)
    decls: Vec<(String, usize)>,
    /// declared type constructors of kind Type -> Type usable in effect rows
    generics: Vec<String>,
    features: Vec<&'static str>,
}

impl<'t, 'a> TyGen<'t, 'a> {
    fn atom(&mut self) -> String {
        let base = ["Int", "Float", "String", "Byte", "Char", "Bool", "()"];
        let n = base.len() + self.generics.len();
        let i = self.t.pick(n);
        if i < base.len() {
            base[i].to_string()
        } else {
            self.generics[i - base.len()].clone()
        }
    }
    /// `prec`: 0 anything, 1 left of an arrow, 2 argument of an application
    fn ty(&mut self, depth: usize, prec: u8) -> String {
        if depth == 0 || self.t.exhausted() {
            return self.atom();
        }
        let paren = |s: String, need: bool| if need { format!("({})", s) } else { s };
        match self.t.pick(17) {
            0 | 1 => self.atom(),
            2 | 3 => {
                let a = self.ty(depth - 1, 1);
                let r = self.ty(depth - 1, 0);
                if prec >= 1 {
                    self.features.push("function_in_argument_position");
                }
                paren(format!("{} -> {}", a, r), prec >= 1)
            }
            4 => {
                // implicit argument
                self.features.push("implicit_argument");
                let a = self.ty(depth - 1, 0);
                let r = self.ty(depth - 1, 0);
                paren(format!("[{}] -> {}", a, r), prec >= 1)
            }
            5 => {
                // quantifier (top or nested)
                let v = format!("t{}", self.generics.len());
                self.generics.push(v.clone());
                let body = self.ty(depth - 1, 0);
                self.generics.pop();
                if prec >= 1 {
                    self.features.push("forall_in_argument_position");
                }
                paren(format!("forall {} . {}", v, body), prec >= 1)
            }
            6 | 7 => {
                if self.decls.is_empty() {
                    return self.atom();
                }
                let (name, n) = self.decls[self.t.pick(self.decls.len())].clone();
                if n == 0 {
                    name
                } else {
                    let args: Vec<String> = (0..n).map(|_| self.ty(depth - 1, 2)).collect();
                    paren(format!("{} {}", name, args.join(" ")), prec >= 2)
                }
            }
            8 => {
                let a = self.ty(depth - 1, 2);
                paren(format!("Option {}", a), prec >= 2)
            }
            9 => {
                let a = self.ty(depth - 1, 2);
                paren(format!("Array {}", a), prec >= 2)
            }
            10 => {
                let n = 2 + self.t.pick(2);
                let xs: Vec<String> = (0..n).map(|_| self.ty(depth - 1, 0)).collect();
                format!("({})", xs.join(", "))
            }
            11 | 12 => {
                // record, possibly with operator field names and many fields (forces breaks)
                let n = self.t.pick(7);
                // tuple-like names included: `{ _0 : a }`, `{ _0 : a, _01 : b }`, `{ _1 : a }`
                // are records, only `_0, _1, ..` in order and closed is a tuple
                let names = ["x", "y", "value", "next_state", "(+)", "(<>)", "f", "a_rather_long_field_name", "k", "_0", "_1", "_01", "_2"];
                let mut used = vec![];
                let mut fs = vec![];
                for _ in 0..n {
                    let nm = names[self.t.pick(names.len())];
                    if used.contains(&nm) {
                        continue;
                    }
                    used.push(nm);
                    if nm.starts_with('(') {
                        self.features.push("operator_field");
                    }
                    if nm.starts_with('_') {
                        self.features.push("tuple_like_field_name");
                    }
                    fs.push(format!("{} : {}", nm, self.ty(depth - 1, 0)));
                }
                if fs.is_empty() {
                    "{ }".to_string()
                } else {
                    format!("{{ {} }}", fs.join(", "))
                }
            }
            13 => {
                // open record: needs a row variable bound by a quantifier
                self.features.push("row_tail");
                let r = format!("r{}", self.generics.len());
                let f1 = self.ty(depth - 1, 0);
                let f2 = self.ty(depth - 1, 0);
                let s = format!("forall {} . {{ x : {}, y : {} | {} }} -> Int", r, f1, f2, r);
                paren(s, prec >= 1)
            }
            15 => {
                // open tuple: a record with the fields _0, _1 and a row tail (the type of
                // `\\p -> p._0`); printed as `(a | r)`
                self.features.push("open_tuple_row");
                let r = format!("r{}", self.generics.len());
                let f1 = self.ty(depth - 1, 0);
                let f2 = self.ty(depth - 1, 0);
                let s = match self.t.pick(4) {
                    0 => format!("forall {} . {{ _0 : {} | {} }} -> Int", r, f1, r),
                    1 => format!("forall {} . {{ | {} }} -> Int", r, r),
                    _ => format!("forall {} . {{ _0 : {}, _1 : {} | {} }} -> Int", r, f1, f2, r),
                };
                paren(s, prec >= 1)
            }
            14 => {
                // effect row applied to a type
                self.features.push("effect_row");
                let r = format!("r{}", self.generics.len());
                let a = self.ty(depth - 1, 2);
                let s = format!("forall {} . Eff [| e0 : E0, e1 : E1 | {} |] {}", r, r, a);
                paren(s, prec >= 1)
            }
            _ => {
                let a = self.ty(depth - 1, 2);
                let b = self.ty(depth - 1, 2);
                paren(format!("Result {} {}", a, b), prec >= 2)
            }
        }
    }
}

const PRELUDE_DECLS: &str = "let { Eff } = import! std.effect\nlet { Result } = import! std.result\ntype E0 r a = | E0 a .. r\ntype E1 r a = | E1 Int .. r\n";

fn gen_case(t: &mut Tape) -> (String, Vec<&'static str>) {
    let mut decl_src = String::new();
    let mut decls = vec![];
    let mut decl_feats: Vec<&'static str> = vec![];
    let nd = t.pick(4);
    for k in 0..nd {
        let np = t.pick(3);
        let params: Vec<String> = (0..np).map(|i| format!("p{}", i)).collect();
        let name = format!("D{}", k);
        let mut g = TyGen { t, decls: decls.clone(), generics: params.clone(), features: vec![] };
        let body = match g.t.pick(3) {
            0 => {
                // variant
                let nc = 1 + g.t.pick(3);
                // GADT style (`| C : a -> b -> D p`): arguments stand left of an arrow, so a
                // function or quantified argument needs its parentheses
                let gadt = g.t.chance(1, 3);
                if gadt {
                    g.features.push("gadt_style_constructor");
                }
                let result = format!("{}{}", name, params.iter().map(|p| format!(" {}", p)).collect::<String>());
                // a variant under a quantifier: `forall x . (| A x | B)`
                let quantified = !gadt && g.t.chance(1, 6);
                if quantified {
                    g.features.push("forall_over_variant");
                    g.generics.push("q0".to_string());
                }
                let mut s = String::new();
                for c in 0..nc {
                    let na = g.t.pick(3);
                    if gadt {
                        let args: Vec<String> = (0..na).map(|_| g.ty(2, 1)).collect();
                        s.push_str(&format!("| C{}x{} : {}{} ", k, c, args.iter().map(|a| format!("{} -> ", a)).collect::<String>(), result));
                    } else {
                        let args: Vec<String> = (0..na).map(|_| g.ty(1, 2)).collect();
                        s.push_str(&format!("| C{}x{}{} ", k, c, args.iter().map(|a| format!(" {}", a)).collect::<String>()));
                    }
                }
                if quantified {
                    g.generics.pop();
                    format!("forall q0 . ({})", s.trim_end())
                } else {
                    s
                }
            }
            1 => {
                let f1 = g.ty(1, 0);
                let f2 = g.ty(1, 0);
                format!("{{ a : {}, b : {} }}", f1, f2)
            }
            _ => g.ty(2, 0),
        };
        decl_feats.extend(g.features.iter().copied());
        decl_src.push_str(&format!("type {}{} = {}\n", name, params.iter().map(|p| format!(" {}", p)).collect::<String>(), body));
        decls.push((name, np));
    }
    let mut g = TyGen { t, decls, generics: vec![], features: vec![] };
    let depth = 1 + g.t.pick(4);
    let ty = g.ty(depth, 0);
    let mut feats = g.features.clone();
    feats.extend(decl_feats);
    let kind = g.t.pick(4);
    let src = if kind == 0 && nd > 0 {
        // a module-like record exporting the declared types: type fields in the printed type
        let fields: Vec<String> = (0..nd).map(|k| format!("D{}", k)).collect();
        format!("{}{}let v : {} = error \"\"\n{{ {}, v }}\n", PRELUDE_DECLS, decl_src, ty, fields.join(", "))
    } else {
        format!("{}{}let v : {} = error \"\"\nv\n", PRELUDE_DECLS, decl_src, ty)
    };
    (src, feats)
}

// ---- property -----------------------------------------------------------------------------

const WIDTHS: &[usize] = &[20, 40, 60, 80, 120, 200];

fn indent(text: &str, n: usize) -> String {
    text.lines().map(|l| format!("{}{}", " ".repeat(n), l)).collect::<Vec<_>>().join("\n")
}

/// parses `text` as the right-hand side of a type alias and as an annotation; returns canonical
/// trees (or the error text)
fn parse_back(vm: &gluon::Thread, text: &str) -> (Result<String, String>, Result<String, String>) {
    let tc = TypeCache::new();
    let alias_src = format!("type X__ =\n{}\n()\n", indent(text, 8));
    let alias = match vm.parse_expr(&tc, "c18alias", &alias_src) {
        Ok(e) => match &e.expr().value {
            Expr::TypeBindings(bs, _) => Ok(normalise_free(&canon(bs[0].alias.value.unresolved_type()))),
            _ => Err("no type binding in the parsed tree".to_string()),
        },
        Err(e) => Err(e.to_string()),
    };
    let ann_src = format!("let x__ :\n{}\n    = ()\n()\n", indent(text, 8));
    let ann = match vm.parse_expr(&tc, "c18ann", &ann_src) {
        Ok(e) => {
            fn find<'a>(e: &'a SpannedExpr<'a, Symbol>) -> Option<String> {
                match &e.value {
                    Expr::LetBindings(ValueBindings::Plain(b), _) => b.typ.as_ref().map(|t| normalise_free(&canon(t))),
                    _ => None,
                }
            }
            find(e.expr()).ok_or_else(|| "no annotated binding in the parsed tree".to_string())
        }
        Err(e) => Err(e.to_string()),
    };
    (alias, ann)
}

impl Property for C18 {
    fn id(&self) -> &'static str {
        "C18"
    }
    fn plan(&self, tier: Tier) -> Plan {
        Plan {
            random_cases: tier.pick(8000, 250_000),
            tape_len: 200,
            watchdog_s: 120,
            worker_recycle: 1000,
            worker_stack: 64 << 20,
            ..Plan::default()
        }
    }
    fn gen(&self, t: &mut Tape, tier: Tier) -> Value {
        if t.chance(1, 4) {
            // the type the checker infers for a generated program (higher-order results allowed)
            let cfg = crate::gen::prog::GenCfg { max_size: tier.pick(40, 80), ..Default::default() };
            let prog = crate::gen::prog::gen_program(t, cfg);
            let src = crate::gen::print::print_program(&prog, Default::default(), "");
            return json!({"src": src, "features": ["inferred_type_of_generated_program"]});
        }
        let (src, feats) = gen_case(t);
        json!({"src": src, "features": feats})
    }
    fn exec(&self, ctx: &mut WorkerCtx, case: &Value) -> Value {
        if ctx.state.is_none() {
            ctx.state = Some(Box::new(gl::new_vm(Settings::default())));
        }
        let vm = ctx.state.as_ref().unwrap().downcast_ref::<gluon::RootedThread>().unwrap().clone();
        let src = case["src"].as_str().unwrap();
        let typ: ArcType = match vm.typecheck_str("c18", src, None) {
            Ok((_, t)) => t,
            Err(e) => return json!({"rejected": e.to_string().lines().take(6).collect::<Vec<_>>().join(" / ")}),
        };
        let want = normalise_free(&canon(&typ));
        let mut rows = vec![];
        for w in WIDTHS {
            let text = format!("{}", typ.display::<()>(*w));
            let (alias, ann) = parse_back(&vm, &text);
            rows.push(json!({"width": w, "text": text, "alias": alias, "ann": ann, "lines": text.lines().count()}));
        }
        // the definitions of the type fields of a module-like record (what documentation and
        // generated declarations print for `type D = ..`), each rendered and read back on its own
        let mut bodies = vec![];
        {
            use gluon::base::types::{remove_forall, type_field_iter, Type};
            if let Type::Record(row) = &**remove_forall(&typ) {
                for f in type_field_iter(row) {
                    let body: ArcType = f.typ.unresolved_type().clone();
                    let want = normalise_free(&canon(&body));
                    let mut rows = vec![];
                    for w in WIDTHS {
                        let text = format!("{}", body.display::<()>(*w));
                        let (alias, ann) = parse_back(&vm, &text);
                        rows.push(json!({"width": w, "text": text, "alias": alias, "ann": ann, "lines": text.lines().count()}));
                    }
                    bodies.push(json!({"name": f.name.declared_name(), "want": want, "rows": rows}));
                }
            }
        }
        json!({"want": want, "rows": rows, "bodies": bodies})
    }
    fn judge(&self, case: &Value, obs: &Obs, kf: &KnownFindings) -> Judged {
        let mut j = Judged::pass();
        let src = case["src"].as_str().unwrap_or("");
        let v = match obs {
            Obs::Ok(v) => v,
            Obs::TimedOut => {
                j.verdict = Verdict::Inconclusive("watchdog".into());
                return j;
            }
            other => {
                let (k, text) = match other {
                    Obs::Panicked { msg, loc } => ("panic", format!("{} at {}", msg, loc)),
                    Obs::Died { status, tail } => ("died", format!("{} {}", status, tail)),
                    _ => ("", String::new()),
                };
                j.verdict = match kf.matches("C18", k, &text, &[]) {
                    Some(id) => Verdict::Known(id),
                    None => Verdict::Violation(format!("printing / re-parsing a type killed or panicked the host: {}\nsource:\n{}", other.to_json(), src)),
                };
                return j;
            }
        };
        if let Some(r) = v.get("rejected") {
            j.classes.push("generated_source_rejected_by_checker".into());
            j.verdict = Verdict::Inconclusive(format!("generated source rejected: {}", r.as_str().unwrap_or("")));
            // rejections are a generator matter; tolerate them but count
            if !r.as_str().unwrap_or("").is_empty() {
                j.verdict = Verdict::Pass;
            }
            return j;
        }
        let feats: Vec<String> = serde_json::from_value(case["features"].clone()).unwrap_or_default();
        let mut evals = 0;
        // the type itself, then the definition of each of its type fields
        // (the definitions first: the record around them may match a known finding, which ends
        // the judgement of the case)
        let mut subjects: Vec<(String, Value, String)> = vec![];
        for b in v["bodies"].as_array().cloned().unwrap_or_default() {
            subjects.push((
                b["want"].as_str().unwrap_or("").to_string(),
                b["rows"].clone(),
                format!("definition of the type field `{}`: ", b["name"].as_str().unwrap_or("")),
            ));
        }
        subjects.push((v["want"].as_str().unwrap_or("").to_string(), v["rows"].clone(), String::new()));
        let (mut any_variant, mut any_tfield) = (false, false);
        for (want, rows, label) in &subjects {
        let want = want.as_str();
        let has_variant = want.contains("(variant");
        let has_tfield = want.contains("(tfield");
        any_variant |= has_variant;
        any_tfield |= has_tfield;
        for row in rows.as_array().cloned().unwrap_or_default() {
            let text = row["text"].as_str().unwrap_or("");
            let width = row["width"].as_u64().unwrap_or(0);
            // a bare variant only parses as the right-hand side of a type alias
            let contexts: Vec<&str> = if has_variant { vec!["alias"] } else { vec!["alias", "ann"] };
            for ctx in contexts {
                evals += 1;
                let r = &row[ctx];
                let mut fs = feats.clone();
                if has_tfield {
                    fs.push("record_with_type_fields".into());
                }
                if has_variant {
                    fs.push("variant".into());
                }
                if feats.iter().any(|f| f == "open_tuple_row") && text.contains('|') {
                    // an open tuple row is printed as `(a, b | r)`, which is not type syntax (KF-C18-02)
                    fs.push("open_tuple_row_printed_with_parentheses".into());
                }
                // a variant under a quantifier is printed without its parentheses (KF-C18-03): the
                // text has a `.` directly followed by the first `|` of the variant
                {
                    let squeezed: String = text.split_whitespace().collect::<Vec<_>>().join(" ");
                    if want.contains("(variant") && squeezed.contains(". |") {
                        fs.push("forall_over_variant_printed_bare".into());
                    }
                }
                if has_tfield && (text.contains("= |") || text.contains("(|")) {
                    // a type field whose definition is a variant is printed as `T = | A | B`,
                    // which the type grammar does not accept inside a record (KF-C18-01)
                    fs.push("type_field_with_variant_body".into());
                }
                let problem = if let Some(e) = r.get("Err") {
                    Some(format!(
                        "{}the rendering at width {} does not parse ({}): {}\nrendering:\n{}",
                        label,
                        width,
                        ctx,
                        e.as_str().unwrap_or("").lines().take(6).collect::<Vec<_>>().join(" / "),
                        text
                    ))
                } else if r["Ok"].as_str() != Some(want) {
                    Some(format!(
                        "{}the rendering at width {} parses ({}) to another type\n original: {}\n parsed:   {}\nrendering:\n{}",
                        label,
                        width,
                        ctx,
                        want,
                        r["Ok"].as_str().unwrap_or(""),
                        text
                    ))
                } else {
                    None
                };
                if let Some(p) = problem {
                    j.verdict = match kf.matches("C18", "wrong_value", &p, &fs) {
                        Some(id) => Verdict::Known(id),
                        None => Verdict::Violation(format!("{}\nsource of the type:\n{}", p, src)),
                    };
                    return j;
                }
            }
            if row["lines"].as_u64().unwrap_or(1) > 1 || feats.iter().any(|f| f.contains("argument_position") || f == "operator_field") {
                j.nontrivial.push(fnv(format!("{}:{}", want, width).as_bytes()));
            }
        }
        }
        let (has_variant, has_tfield) = (any_variant, any_tfield);
        if subjects.len() > 1 {
            j.classes.push("f:type_field_definitions_read_back".into());
        }
        j.evals = evals;
        for f in feats {
            j.classes.push(format!("f:{}", f));
        }
        if has_variant {
            j.classes.push("f:variant".into());
        }
        if has_tfield {
            j.classes.push("f:record_with_type_fields".into());
        }
        j
    }
    fn rule(&self) -> String {
        "types written by a generator (builtins, functions incl. in argument position, implicit arguments, nested and top-level foralls, applications of declared aliases / Option / Array / Result, tuples, records with up to 7 fields incl. operator names, open records with a row tail, effect rows, declared variants and record aliases, module-like records with type fields) are checked by gluon to obtain the ArcType the system builds; TypeFormatter renders it at widths 20/40/60/80/120/200; the text is parsed (parser only) as the right-hand side of a type alias and, unless it is a bare variant, as a binding annotation; canonical trees (constructors by last path component, bound generics numbered by binder, free ones by first occurrence, adjacent foralls merged, nested applications flattened, rows in written order) of the original and of the parsed type must be equal. Non-trivial = the rendering has a line break at that width or the type has a function/forall in argument position or an operator field; distinct by (type, width)".into()
    }
    fn assumptions(&self) -> Vec<String> {
        vec![
            "parser-level comparison only (printed qualifiers such as `m.T` are compared by their last component, no name resolution)".into(),
            "inside a record, type fields are compared by name and number of parameters; the definition of each type field of the top-level record is rendered and read back separately".into(),
            "sources the checker rejects (kind errors of the generator) are counted and skipped".into(),
        ]
    }
    fn describe(&self, case: &Value, obs: &Obs) -> Value {
        let mut o = obs.to_json();
        if let Some(rows) = o.pointer_mut("/ok/rows").and_then(|r| r.as_array_mut()) {
            rows.truncate(2);
        }
        json!({"src": case["src"], "obs": o})
    }
}

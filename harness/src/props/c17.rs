//! C17 — channels, references and lazy values keep their sequential contracts.
//!
//! Model-based: an operation sequence over channels, references, lazies and green threads is
//! compiled into one Gluon IO program whose observations go to the host log; an executable
//! model (FIFO queues, cells, thunk/in-progress/value/failed automaton, coroutine states)
//! predicts the log.  Short sequences are enumerated exhaustively, longer ones are generated.
use std::collections::VecDeque;

use serde::{Deserialize, Serialize};
use serde_json::{json, Value};

use crate::engine::*;
use crate::gl::{self, Outcome, Settings, Val};
use crate::props::common::*;
use crate::tape::{fnv, Tape};

pub struct C17;

const NCH: usize = 2;
const NREF: usize = 2;

#[derive(Clone, Copy, Debug, Serialize, Deserialize, PartialEq, Eq)]
pub enum LazyKind {
    Const(i64),
    Fail,
    /// 1 + force of another lazy (cycles allowed: self-dependent computations)
    Dep(usize),
}

#[derive(Clone, Copy, Debug, Serialize, Deserialize, PartialEq, Eq)]
pub enum Op {
    Send(usize, i64),
    Recv(usize),
    Load(usize),
    Store(usize, i64),
    /// force inside io.catch: the outcome is logged
    Force(usize),
    /// force without a handler (thread bodies only): a failure kills the green thread
    ForceUncaught(usize),
    Yield,
    Spawn(usize),
    Resume(usize),
}

#[derive(Clone, Debug, Serialize, Deserialize, PartialEq, Eq)]
pub struct Block {
    pub lazies: Vec<LazyKind>,
    pub bodies: Vec<Vec<Op>>,
    pub main: Vec<Op>,
    /// channels and references carry strings built at run time (heap values reachable only
    /// through the queue / the cell) instead of Ints
    #[serde(default)]
    pub heap: bool,
}

// ---- model -------------------------------------------------------------------------------

#[derive(Clone, Copy, PartialEq, Eq, Debug)]
enum LState {
    Thunk,
    InProgress,
    Value(i64),
    Failed,
}

#[derive(Clone, Copy, PartialEq, Eq, Debug)]
enum TState {
    NotSpawned,
    Suspended(usize),
    Done,
    Dead,
}

pub const RECV_EMPTY: i64 = 1999;
pub const FORCE_ERR: i64 = 3999;
pub const RESUME_OK: i64 = 4000;
pub const RESUME_EXC: i64 = 4998;
pub const RESUME_DEAD: i64 = 4999;

struct Model<'a> {
    b: &'a Block,
    chans: Vec<VecDeque<i64>>,
    refs: Vec<i64>,
    lazies: Vec<LState>,
    threads: Vec<TState>,
    log: Vec<(char, i64)>,
}

enum Stop {
    End,
    Yield(usize),
    Died,
}

impl<'a> Model<'a> {
    fn new(b: &'a Block) -> Model<'a> {
        Model {
            b,
            chans: vec![VecDeque::new(); NCH],
            refs: vec![0; NREF],
            lazies: vec![LState::Thunk; b.lazies.len()],
            threads: vec![TState::NotSpawned; b.bodies.len()],
            log: vec![],
        }
    }
    fn force(&mut self, l: usize) -> Result<i64, ()> {
        match self.lazies[l] {
            LState::Value(v) => Ok(v),
            LState::Failed => Err(()),
            LState::InProgress => Err(()),
            LState::Thunk => {
                self.lazies[l] = LState::InProgress;
                self.log.push(('t', l as i64));
                let r = match self.b.lazies[l] {
                    LazyKind::Const(v) => Ok(v),
                    LazyKind::Fail => Err(()),
                    LazyKind::Dep(j) => self.force(j).map(|v| v + 1),
                };
                self.lazies[l] = match r {
                    Ok(v) => LState::Value(v),
                    Err(()) => LState::Failed,
                };
                r
            }
        }
    }
    /// runs `ops[pc..]`; `in_thread`: yields suspend
    fn run(&mut self, ops: &[Op], mut pc: usize, in_thread: bool) -> Stop {
        while pc < ops.len() {
            let op = ops[pc];
            pc += 1;
            match op {
                Op::Send(c, v) => self.chans[c].push_back(v),
                Op::Recv(c) => match self.chans[c].pop_front() {
                    Some(v) => self.log.push(('l', 1000 + v)),
                    None => self.log.push(('l', RECV_EMPTY)),
                },
                Op::Load(r) => self.log.push(('l', 2000 + self.refs[r])),
                Op::Store(r, v) => self.refs[r] = v,
                Op::Force(l) => match self.force(l) {
                    Ok(v) => self.log.push(('l', 3000 + v)),
                    Err(()) => self.log.push(('l', FORCE_ERR)),
                },
                Op::ForceUncaught(l) => match self.force(l) {
                    Ok(v) => self.log.push(('l', 3000 + v)),
                    Err(()) => return Stop::Died,
                },
                Op::Yield => {
                    if in_thread {
                        return Stop::Yield(pc);
                    }
                }
                Op::Spawn(t) => self.threads[t] = TState::Suspended(0),
                Op::Resume(t) => match self.threads[t] {
                    TState::NotSpawned => unreachable!("ill-scoped sequence"),
                    TState::Suspended(p) => {
                        let body = self.b.bodies[t].clone();
                        match self.run(&body, p, true) {
                            Stop::End => {
                                self.threads[t] = TState::Done;
                                self.log.push(('l', RESUME_OK));
                            }
                            Stop::Yield(p2) => {
                                self.threads[t] = TState::Suspended(p2);
                                self.log.push(('l', RESUME_OK));
                            }
                            Stop::Died => {
                                self.threads[t] = TState::Dead;
                                self.log.push(('l', RESUME_EXC));
                            }
                        }
                    }
                    TState::Done | TState::Dead => self.log.push(('l', RESUME_DEAD)),
                },
            }
        }
        Stop::End
    }
}

pub fn model_log(b: &Block) -> Vec<(char, i64)> {
    let mut m = Model::new(b);
    m.run(&b.main, 0, false);
    m.log
}

/// spawn before resume, indices in range, thread bodies contain no spawn/resume
pub fn well_scoped(b: &Block) -> bool {
    let mut spawned = vec![false; b.bodies.len()];
    for op in &b.main {
        match op {
            Op::Spawn(t) => {
                if *t >= b.bodies.len() || spawned[*t] {
                    return false;
                }
                spawned[*t] = true
            }
            Op::Resume(t) => {
                if *t >= b.bodies.len() || !spawned[*t] {
                    return false;
                }
            }
            Op::ForceUncaught(_) => return false,
            _ => {}
        }
    }
    true
}

// ---- compilation to Gluon -------------------------------------------------------------------

const HEADER: &str = r#"let io @ { ? } = import! std.io
let { wrap } = import! std.applicative
let { flat_map } = import! std.monad
let { send, recv, channel } = import! std.channel
let { spawn, yield, resume } = import! std.thread
let { ref, load, (<-) } = import! std.reference
let { lazy, force } = import! std.lazy
let { Result } = import! std.result
let sref @ { (<-) = pset } = import! std.st.reference.prim
let h = import! h
let obs_recv x =
    match x with
    | Ok v -> h.log (1000 + v)
    | Err _ -> h.log 1999
let obs_resume x =
    match x with
    | Ok _ -> h.log 4000
    | Err _ -> h.log 4999
let dummy = lazy (\_ -> 0)
let mk = (import! std.prim).show_int
let unmk s =
    match (import! std.int.prim).parse s with
    | Ok v -> v
    | Err _ -> 998
let obs_recv_h x =
    match x with
    | Ok s -> h.log (1000 + unmk s)
    | Err _ -> h.log 1999
"#;

fn op_text(op: &Op, ind: &str, heap: bool, o: &mut String) {
    match op {
        Op::Send(c, v) if heap => o.push_str(&format!("{}do _ = send c{}.sender (mk {})\n", ind, c, v)),
        Op::Recv(c) if heap => {
            o.push_str(&format!("{}do x = recv c{}.receiver\n{}let _ = obs_recv_h x\n", ind, c, ind))
        }
        Op::Load(r) if heap => o.push_str(&format!("{}do x = load r{}\n{}let _ = h.log (2000 + unmk x)\n", ind, r, ind)),
        Op::Store(r, v) if heap => o.push_str(&format!("{}do _ = r{} <- mk {}\n", ind, r, v)),
        Op::Send(c, v) => o.push_str(&format!("{}do _ = send c{}.sender {}\n", ind, c, v)),
        Op::Recv(c) => {
            o.push_str(&format!("{}do x = recv c{}.receiver\n{}let _ = obs_recv x\n", ind, c, ind))
        }
        Op::Load(r) => o.push_str(&format!("{}do x = load r{}\n{}let _ = h.log (2000 + x)\n", ind, r, ind)),
        Op::Store(r, v) => o.push_str(&format!("{}do _ = r{} <- {}\n", ind, r, v)),
        Op::Force(l) => o.push_str(&format!(
            "{}do _ = io.catch (flat_map (\\_ -> wrap (h.log (3000 + force l{}))) (wrap ())) (\\_ -> wrap (h.log 3999))\n",
            ind, l
        )),
        Op::ForceUncaught(l) => o.push_str(&format!("{}let _ = h.log (3000 + force l{})\n", ind, l)),
        Op::Yield => o.push_str(&format!("{}let _ = yield ()\n", ind)),
        Op::Spawn(_) | Op::Resume(_) => unreachable!(),
    }
}

pub fn block_text(b: &Block, marker: i64) -> String {
    let mut o = String::new();
    o.push_str(&format!("let _ = h.log {}\n", marker));
    for c in 0..NCH {
        o.push_str(&format!("do c{} = channel {}\n", c, if b.heap { "\"\"" } else { "0" }));
    }
    for r in 0..NREF {
        o.push_str(&format!("do r{} = ref {}\n", r, if b.heap { "(mk 0)" } else { "0" }));
    }
    if !b.lazies.is_empty() {
        let fields: Vec<String> = (0..b.lazies.len()).map(|i| format!("l{} = dummy", i)).collect();
        o.push_str(&format!("let cells = sref.ref {{ {} }}\n", fields.join(", ")));
        for (i, k) in b.lazies.iter().enumerate() {
            let body = match k {
                LazyKind::Const(v) => format!("{}", v),
                LazyKind::Fail => "error \"boom\"".to_string(),
                LazyKind::Dep(j) => format!("1 + force (sref.load cells).l{}", j),
            };
            o.push_str(&format!("let l{i} = lazy (\\_ -> let _ = h.tick {i} in {body})\n", i = i, body = body));
        }
        let fields: Vec<String> = (0..b.lazies.len()).map(|i| format!("l{}", i)).collect();
        o.push_str(&format!("let _ = pset cells {{ {} }}\n", fields.join(", ")));
    }
    for op in &b.main {
        match op {
            Op::Spawn(t) => {
                // the leading bind makes every operation of the body run when the thread is
                // resumed (pure `let`s in front of the first bind would run in the spawner while
                // the argument is evaluated)
                o.push_str(&format!("do t{} = spawn (\n        do _ = wrap ()\n", t));
                for bop in &b.bodies[*t] {
                    op_text(bop, "        ", b.heap, &mut o);
                }
                o.push_str("        wrap ()\n    )\n");
            }
            Op::Resume(t) => o.push_str(&format!(
                "do _ = io.catch (flat_map (\\x -> wrap (obs_resume x)) (resume t{})) (\\_ -> wrap (h.log 4998))\n",
                t
            )),
            other => op_text(other, "", b.heap, &mut o),
        }
    }
    o
}

pub fn program_text(blocks: &[Block]) -> String {
    let mut o = String::from(HEADER);
    for (i, b) in blocks.iter().enumerate() {
        o.push_str(&block_text(b, 900_000 + i as i64));
    }
    o.push_str("wrap 42\n");
    o
}

// ---- enumeration ----------------------------------------------------------------------------

fn scenarios() -> Vec<(Vec<LazyKind>, Vec<Vec<Op>>)> {
    vec![
        // constant and failing lazies; the thread sends, yields, forces both, receives
        (
            vec![LazyKind::Const(7), LazyKind::Fail],
            vec![vec![Op::Send(0, 90), Op::Yield, Op::Force(1), Op::Force(0), Op::Recv(0)]],
        ),
        // self-dependent pair; the thread forces the loop first
        (
            vec![LazyKind::Dep(1), LazyKind::Dep(0)],
            vec![vec![Op::Force(0), Op::Yield, Op::Store(0, 5), Op::Send(0, 91)]],
        ),
        // chain onto a failing lazy; the thread dies forcing it without a handler
        (
            vec![LazyKind::Dep(1), LazyKind::Fail],
            vec![vec![Op::Recv(0), Op::Load(0), Op::ForceUncaught(0), Op::Send(0, 92)]],
        ),
        // chain onto a constant; the thread forces the inner one only
        (
            vec![LazyKind::Dep(1), LazyKind::Const(3)],
            vec![vec![Op::Force(1), Op::Send(0, 93), Op::Yield, Op::Yield, Op::Recv(0)]],
        ),
    ]
}

fn alphabet(pos: usize) -> Vec<Op> {
    let v = pos as i64 + 1;
    vec![
        Op::Send(0, v),
        Op::Recv(0),
        Op::Store(0, v),
        Op::Load(0),
        Op::Force(0),
        Op::Force(1),
        Op::Spawn(0),
        Op::Resume(0),
        Op::Yield,
    ]
}

fn enumerate(max_len: usize) -> Vec<Block> {
    let mut out = vec![];
    for (lazies, bodies) in scenarios() {
        let mut seqs: Vec<Vec<Op>> = vec![vec![]];
        let mut frontier: Vec<Vec<Op>> = vec![vec![]];
        for pos in 0..max_len {
            let mut next = vec![];
            for s in &frontier {
                for op in alphabet(pos) {
                    let mut s2 = s.clone();
                    s2.push(op);
                    let b = Block { lazies: lazies.clone(), bodies: bodies.clone(), main: s2.clone(), heap: false };
                    if well_scoped(&b) {
                        next.push(s2);
                    }
                }
            }
            seqs.extend(next.iter().cloned());
            frontier = next;
        }
        for s in seqs {
            out.push(Block { lazies: lazies.clone(), bodies: bodies.clone(), main: s, heap: false });
        }
    }
    out
}

// ---- random generation ----------------------------------------------------------------------

fn gen_block(t: &mut Tape, max_len: usize, traffic: bool) -> Block {
    let nl = 1 + t.pick(3);
    let mut lazies = vec![];
    for _ in 0..nl {
        lazies.push(match t.pick(5) {
            0 | 1 => LazyKind::Const(t.range(1, 50)),
            2 => LazyKind::Fail,
            _ => LazyKind::Dep(t.pick(nl)),
        });
    }
    let nt = t.pick(4);
    let mut counter = 1;
    let mut simple_op = |t: &mut Tape, in_thread: bool, counter: &mut i64| -> Op {
        // channel traffic: producer ahead of consumer on channel 0, so that the queue is reused
        // while it holds messages
        if traffic && t.chance(3, 4) {
            let c = if t.chance(5, 6) { 0 } else { 1 };
            if t.chance(5, 9) {
                *counter += 1;
                return Op::Send(c, *counter);
            }
            return Op::Recv(c);
        }
        match t.pick(if in_thread { 9 } else { 8 }) {
            0 | 1 => {
                *counter += 1;
                Op::Send(t.pick(NCH), *counter)
            }
            2 | 3 => Op::Recv(t.pick(NCH)),
            4 => Op::Load(t.pick(NREF)),
            5 => {
                *counter += 1;
                Op::Store(t.pick(NREF), *counter)
            }
            6 => Op::Force(t.pick(nl)),
            7 => Op::Yield,
            _ => Op::ForceUncaught(t.pick(nl)),
        }
    };
    let mut bodies = vec![];
    for _ in 0..nt {
        let n = t.pick(8);
        let mut body = vec![];
        for _ in 0..n {
            body.push(simple_op(t, true, &mut counter));
        }
        bodies.push(body);
    }
    let n = 1 + t.pick(max_len);
    let mut main = vec![];
    let mut spawned: Vec<usize> = vec![];
    for _ in 0..n {
        let k = t.pick(10);
        if k >= 7 && nt > 0 {
            // thread operation
            let unspawned: Vec<usize> = (0..nt).filter(|x| !spawned.contains(x)).collect();
            if !unspawned.is_empty() && (spawned.is_empty() || t.chance(1, 3)) {
                let x = *t.choose(&unspawned);
                spawned.push(x);
                main.push(Op::Spawn(x));
            } else if !spawned.is_empty() {
                main.push(Op::Resume(*t.choose(&spawned)));
            }
        } else {
            main.push(simple_op(t, false, &mut counter));
        }
    }
    Block { lazies, bodies, main, heap: false }
}

/// a block with heap payloads and producer-ahead-of-consumer channel traffic (used by C05)
pub fn gen_traffic_block(t: &mut Tape, max_len: usize) -> Block {
    let mut b = gen_block(t, max_len, true);
    b.heap = true;
    b
}

// ---- property -----------------------------------------------------------------------------

fn nontrivial(b: &Block) -> bool {
    // a recv after >= 2 sends, or a second force of one lazy, or an operation performed by a
    // resumed green thread
    let mut sends = 0;
    let mut forced = vec![0; b.lazies.len()];
    let mut all: Vec<Op> = b.main.clone();
    for body in &b.bodies {
        all.extend(body.iter().cloned());
    }
    let mut recv_after = false;
    for op in &b.main {
        match op {
            Op::Send(..) => sends += 1,
            Op::Recv(_) if sends >= 2 => recv_after = true,
            _ => {}
        }
    }
    for op in &all {
        if let Op::Force(l) | Op::ForceUncaught(l) = op {
            forced[*l] += 1;
        }
    }
    let resumed_work = b.main.iter().any(|op| matches!(op, Op::Resume(t) if !b.bodies[*t].is_empty()));
    recv_after || forced.iter().any(|n| *n >= 2) || resumed_work
}

impl Property for C17 {
    fn id(&self) -> &'static str {
        "C17"
    }
    fn plan(&self, tier: Tier) -> Plan {
        Plan {
            random_cases: tier.pick(6000, 200_000),
            tape_len: tier.pick(160, 300),
            watchdog_s: 120,
            worker_recycle: 200,
            ..Plan::default()
        }
    }
    fn fixed_cases(&self, tier: Tier) -> Vec<Value> {
        let blocks = enumerate(tier.pick(4, 6));
        let per = tier.pick(20, 40);
        blocks.chunks(per).map(|c| json!({ "blocks": c })).collect()
    }
    fn exhaustive_note(&self, tier: Tier) -> Option<String> {
        let n = enumerate(tier.pick(4, 6)).len();
        Some(format!(
            "all well-scoped main-thread sequences of length <= {} over the 9-operation alphabet {{send c0 v, recv c0, r0 <- v, load r0, force l0, force l1, spawn t0, resume t0, yield}} in 4 scenarios (lazy kinds x thread body): {} sequences",
            tier.pick(4, 6),
            n
        ))
    }
    fn gen(&self, t: &mut Tape, tier: Tier) -> Value {
        // read first so that the choice survives shrinking of the sequence
        let heap = t.chance(1, 3);
        let period = if heap && t.chance(3, 4) { *t.choose(&[1u64, 2, 3, 5, 13]) } else { 0 };
        let traffic = heap && t.chance(2, 3);
        let mut b = gen_block(t, tier.pick(24, 40), traffic);
        b.heap = heap;
        json!({ "blocks": [b], "gc_period": period })
    }
    fn exec(&self, ctx: &mut WorkerCtx, case: &Value) -> Value {
        let blocks: Vec<Block> = serde_json::from_value(case["blocks"].clone()).unwrap();
        if ctx.state.is_none() {
            let vm = gl::new_vm(Settings { run_io: true, ..Settings::default() });
            ctx.state = Some(Box::new(vm));
        }
        let vm: gluon::RootedThread = ctx.state.as_ref().unwrap().downcast_ref::<gluon::RootedThread>().unwrap().clone();
        let src = program_text(&blocks);
        let _ = gl::take_host_log();
        // optional GC schedule: a collection at every k-th allocation check, swept blocks poisoned
        // and kept (a message / cell content freed while reachable then reads back as garbage)
        let period = case["gc_period"].as_u64().unwrap_or(0);
        if period > 0 {
            gluon::vm::verif::reset_counters();
            gluon::vm::verif::QUARANTINE.store(true, std::sync::atomic::Ordering::Relaxed);
            gluon::vm::verif::GC_STRESS.store(period, std::sync::atomic::Ordering::Relaxed);
        }
        let (tx, rx) = std::sync::mpsc::channel();
        let src2 = src.clone();
        let handle = std::thread::Builder::new()
            .stack_size(64 << 20)
            .spawn(move || {
                let out = gl::run(&vm, "c17", &src2);
                let _ = tx.send(out);
                // the VM is dropped here; on a hang this thread never gets that far
            })
            .unwrap();
        // Nothing in the workload sleeps, waits for a timer or does I/O: a run that has not
        // answered while the process used no CPU at all for 3 consecutive seconds cannot make
        // progress any more.
        let mut idle = 0;
        let mut last_cpu = cpu_ticks();
        let out = loop {
            match rx.recv_timeout(std::time::Duration::from_secs(1)) {
                Ok(o) => break Some(o),
                Err(std::sync::mpsc::RecvTimeoutError::Timeout) => {
                    let c = cpu_ticks();
                    if c == last_cpu {
                        idle += 1;
                    } else {
                        idle = 0;
                    }
                    last_cpu = c;
                    if idle >= 3 {
                        break None;
                    }
                }
                Err(_) => break None,
            }
        };
        gluon::vm::verif::GC_STRESS.store(0, std::sync::atomic::Ordering::Relaxed);
        gluon::vm::verif::QUARANTINE.store(false, std::sync::atomic::Ordering::Relaxed);
        let log = gl::take_host_log();
        match out {
            Some(o) => {
                let _ = handle.join();
                json!({"out": o, "log": log_to_json(&log)})
            }
            None => json!({"hang": true, "log": log_to_json(&log), "__recycle": true}),
        }
    }
    fn judge(&self, case: &Value, obs: &Obs, kf: &KnownFindings) -> Judged {
        let mut j = Judged::pass();
        let blocks: Vec<Block> = serde_json::from_value(case["blocks"].clone()).unwrap_or_default();
        let v = match obs {
            Obs::Ok(v) => v,
            Obs::TimedOut => {
                j.verdict = Verdict::Inconclusive("watchdog (worker still consuming CPU)".into());
                return j;
            }
            other => {
                let (kind, text) = match other {
                    Obs::Panicked { msg, loc } => ("panic", format!("{} at {}", msg, loc)),
                    Obs::Died { status, tail } => ("died", format!("{} {}", status, tail)),
                    _ => ("", String::new()),
                };
                j.verdict = match kf.matches("C17", kind, &text, &[]) {
                    Some(id) => Verdict::Known(id),
                    None => Verdict::Violation(format!(
                        "an operation sequence killed or panicked the host: {}\nprogram:\n{}",
                        other.to_json(),
                        program_text(&blocks)
                    )),
                };
                return j;
            }
        };
        let log = log_from_json(&v["log"]);
        // split the log at the block markers
        let mut per_block: Vec<Vec<(char, i64)>> = vec![];
        for e in &log {
            if e.0 == 'l' && e.1 >= 900_000 {
                per_block.push(vec![]);
            } else if let Some(l) = per_block.last_mut() {
                l.push(*e);
            }
        }
        let hang = v["hang"].as_bool().unwrap_or(false);
        if !hang {
            let out: Result<Outcome, _> = serde_json::from_value(v["out"].clone());
            match out {
                Ok(Outcome::Value { val: Val::Int(42), .. }) => {}
                Ok(o) => {
                    if let Some(e) = is_front_end_failure(&o) {
                        j.verdict = Verdict::Inconclusive(format!("generated program rejected: {}", e));
                        return j;
                    }
                    j.verdict = Verdict::Violation(format!(
                        "the program must end with 42 (every failure is handled inside it) but ended with {}\nobserved log {:?}\nprogram:\n{}",
                        show_outcome(&o),
                        log,
                        program_text(&blocks)
                    ));
                    return j;
                }
                Err(_) => {
                    j.verdict = Verdict::Inconclusive("malformed observation".into());
                    return j;
                }
            }
        }
        for (i, b) in blocks.iter().enumerate() {
            let expected = model_log(b);
            let got = per_block.get(i).cloned().unwrap_or_default();
            let is_last_seen = i + 1 == per_block.len();
            if hang && (i >= per_block.len() || is_last_seen) {
                if i >= per_block.len() {
                    break;
                }
                let feats = features(b);
                j.verdict = match kf.matches("C17", "hang", "", &feats) {
                    Some(id) => Verdict::Known(id),
                    None => Verdict::Violation(format!(
                        "the program hangs (no answer, process idle): expected observations {:?}, observed before the hang {:?}\nblock:\n{}",
                        expected,
                        got,
                        block_text(b, 900_000)
                    )),
                };
                return j;
            }
            if expected != got {
                j.verdict = Verdict::Violation(format!(
                    "observations differ from the model\n expected {:?}\n observed {:?}\nblock:\n{}",
                    expected,
                    got,
                    block_text(b, 900_000)
                ));
                return j;
            }
            if nontrivial(b) {
                j.nontrivial.push(fnv(serde_json::to_string(b).unwrap().as_bytes()));
            }
            for f in features(b) {
                j.classes.push(f);
            }
        }
        j.evals = blocks.len() as u64;
        j
    }
    fn rule(&self) -> String {
        "operation sequences over 2 channels, 2 references, up to 3 lazies (constant / failing / depending on another lazy, cycles included) and up to 3 green threads, compiled to one IO program each; every recv/load/force/resume outcome and every run of a lazy's computation is logged through host functions and the log must equal the model's (FIFO exactly-once delivery, emptiness reported, last store wins, a thunk runs at most once, forces of failed or self-dependent lazies are errors from any thread, resuming a finished thread is an error); a run that stops consuming CPU without answering is a hang. Non-trivial = a recv after >= 2 sends, a second force of a lazy, or work done by a resumed green thread; distinct by sequence hash".into()
    }
    fn assumptions(&self) -> Vec<String> {
        vec![
            "thunks never yield (a thunk that yields while another green thread forces the same lazy is a user-level deadlock the property does not speak about)".into(),
            "only the main thread spawns and resumes; values sent are Ints (copying of structured values is C13's)".into(),
            "hang criterion: no answer and no CPU time consumed by the worker process during 3 consecutive seconds (the workload has no sleeps, timers or I/O)".into(),
        ]
    }
    fn describe(&self, case: &Value, obs: &Obs) -> Value {
        let blocks: Vec<Block> = serde_json::from_value(case["blocks"].clone()).unwrap_or_default();
        let first = blocks.first().map(|b| block_text(b, 900_000)).unwrap_or_default();
        json!({"blocks": blocks.len(), "first_block": first, "expected_log_first": blocks.first().map(|b| format!("{:?}", model_log(b))), "obs": obs.to_json()})
    }
}

pub fn features(b: &Block) -> Vec<String> {
    let mut f = vec![];
    let all: Vec<&Op> = b.main.iter().chain(b.bodies.iter().flatten()).collect();
    if b.lazies.iter().any(|k| matches!(k, LazyKind::Fail)) && all.iter().any(|o| matches!(o, Op::Force(_) | Op::ForceUncaught(_))) {
        f.push("failing_lazy".into());
    }
    if b.lazies.iter().any(|k| matches!(k, LazyKind::Dep(_))) {
        f.push("dependent_lazy".into());
    }
    if b.bodies.iter().flatten().any(|o| matches!(o, Op::Force(_) | Op::ForceUncaught(_))) {
        f.push("force_in_green_thread".into());
    }
    if b.main.iter().any(|o| matches!(o, Op::Resume(_))) {
        f.push("resume".into());
    }
    if b.main.iter().filter(|o| matches!(o, Op::Resume(_))).count() >= 3 {
        f.push("resume_x3".into());
    }
    if all.iter().any(|o| matches!(o, Op::Recv(_))) {
        f.push("recv".into());
    }
    if b.heap {
        f.push("heap_payload".into());
        // a receive while the queue's ring buffer is wrapped: more messages were sent in total
        // than the queue ever held at once and at least one was taken out in between
        let mut sent = vec![0usize; NCH];
        let mut taken = vec![0usize; NCH];
        for o in &b.main {
            match o {
                Op::Send(c, _) => sent[*c] += 1,
                Op::Recv(c) if sent[*c] > taken[*c] => taken[*c] += 1,
                _ => {}
            }
        }
        if (0..NCH).any(|c| sent[c] >= 5 && taken[c] >= 2) {
            f.push("queue_reuse".into());
        }
    }
    f
}

fn cpu_ticks() -> u64 {
    let s = std::fs::read_to_string("/proc/self/stat").unwrap_or_default();
    // fields after the closing parenthesis of comm: state is field 3; utime 14, stime 15
    let rest = s.rsplit(')').next().unwrap_or("");
    let f: Vec<&str> = rest.split_whitespace().collect();
    let ut = f.get(11).and_then(|x| x.parse::<u64>().ok()).unwrap_or(0);
    let st = f.get(12).and_then(|x| x.parse::<u64>().ok()).unwrap_or(0);
    ut + st
}

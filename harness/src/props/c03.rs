//! C03 — type inference is complete and principal on the ML fragment.
//!
//! Terms of the fragment come from three generators (typed-by-construction programs printed
//! WITHOUT annotations, AST mutants of them, and a small untyped generator aimed at
//! let-polymorphism and rows); an independent algorithm W (gen::w) decides typability and the
//! principal type; Gluon must accept every term W types and report an equivalent type.
//! Metamorphic relations: renaming binders, an unused binding in front, annotating with the
//! printed type.
use gluon::base::types::{ArcType, BuiltinType, Type};
use gluon::ThreadExt;
use serde_json::{json, Value};

use crate::engine::*;
use crate::gen::ast::*;
use crate::gen::mutate::mutate;
use crate::gen::print::{print_program, Style};
use crate::gen::prog::{gen_program, GenCfg};
use crate::gen::w;
use crate::gl::{self, Settings};
use crate::tape::{fnv, Tape};

pub struct C03;

// ---- gluon type -> the canonical rendering of gen::w -------------------------------------------

struct Ren {
    /// free variables by name, in order of first occurrence
    names: Vec<String>,
    /// variables bound by the quantifiers we are inside of: (name, unique key)
    scope: Vec<(String, String)>,
    binders: usize,
}

impl Ren {
    fn var(&mut self, n: &str) -> String {
        // a quantifier inside a field binds its own variable even if the name is reused
        let key = match self.scope.iter().rev().find(|(k, _)| k == n) {
            Some((_, unique)) => unique.clone(),
            None => n.to_string(),
        };
        let i = match self.names.iter().position(|x| *x == key) {
            Some(i) => i,
            None => {
                self.names.push(key);
                self.names.len() - 1
            }
        };
        format!("?{}", i)
    }
    fn con_name(s: &str) -> String {
        // `c03.D0` / `std.types.Option` -> last component
        let s = s.rsplit_once(':').map(|(a, b)| if b.chars().all(|c| c.is_ascii_digit()) { a } else { s }).unwrap_or(s);
        s.rsplit('.').next().unwrap_or(s).to_string()
    }
    fn row(&mut self, row: &ArcType, fields: &mut Vec<(String, ArcType)>) -> Option<String> {
        let mut cur = row.clone();
        loop {
            let next = match &*cur {
                Type::ExtendRow { fields: fs, rest } => {
                    for f in fs.iter() {
                        fields.push((f.name.declared_name().to_string(), f.typ.clone()));
                    }
                    rest.clone()
                }
                Type::ExtendTypeRow { rest, .. } => rest.clone(),
                Type::EmptyRow => return None,
                Type::Generic(g) => return Some(g.id.declared_name().to_string()),
                Type::Variable(v) => return Some(format!("?{}", v.id)),
                Type::Skolem(s) => return Some(s.name.declared_name().to_string()),
                other => return Some(format!("<{}>", other_name(other))),
            };
            cur = next;
        }
    }
    fn ty(&mut self, t: &ArcType, atom: bool) -> String {
        match &**t {
            Type::Builtin(BuiltinType::Int) => "Int".into(),
            Type::Builtin(BuiltinType::Float) => "Float".into(),
            Type::Builtin(BuiltinType::Byte) => "Byte".into(),
            Type::Builtin(BuiltinType::Char) => "Char".into(),
            Type::Builtin(BuiltinType::String) => "String".into(),
            Type::Builtin(b) => b.to_str().to_string(),
            Type::Forall(params, inner) => {
                let n = params.len();
                for p in params.iter() {
                    self.binders += 1;
                    self.scope.push((p.id.declared_name().to_string(), format!("{}#{}", p.id.declared_name(), self.binders)));
                }
                let r = self.ty(inner, atom);
                let l = self.scope.len();
                self.scope.truncate(l - n);
                r
            }
            Type::Function(_, a, b) => {
                let s = format!("{} -> {}", self.ty(a, true), self.ty(b, false));
                if atom {
                    format!("({})", s)
                } else {
                    s
                }
            }
            Type::App(f, args) => {
                if let Type::Builtin(BuiltinType::Function) = &**f {
                    if args.len() == 2 {
                        let s = format!("{} -> {}", self.ty(&args[0], true), self.ty(&args[1], false));
                        return if atom { format!("({})", s) } else { s };
                    }
                }
                let s = format!("{} {}", self.ty(f, true), args.iter().map(|a| self.ty(a, true)).collect::<Vec<_>>().join(" "));
                if atom {
                    format!("({})", s)
                } else {
                    s
                }
            }
            Type::Record(row) => {
                let mut fields = vec![];
                let tail = self.row(row, &mut fields);
                if tail.is_some() {
                    fields.sort_by(|a, b| a.0.cmp(&b.0));
                }
                let inner: Vec<String> = fields.iter().map(|(n, x)| format!("{} : {}", n, self.ty(x, false))).collect();
                match tail {
                    None => format!("{{{}}}", inner.join(", ")),
                    Some(v) => format!("{{{} | {}}}", inner.join(", "), self.var(&v)),
                }
            }
            Type::Alias(a) => Self::con_name(a.name.declared_name()),
            Type::Ident(i) => Self::con_name(i.name.declared_name()),
            Type::Generic(g) => self.var(g.id.declared_name()),
            Type::Variable(v) => self.var(&format!("?{}", v.id)),
            Type::Skolem(s) => self.var(s.name.declared_name()),
            other => format!("<{}>", other_name(other)),
        }
    }
}

fn other_name(t: &Type<gluon::base::symbol::Symbol, ArcType>) -> &'static str {
    match t {
        Type::Hole => "hole",
        Type::Opaque => "opaque",
        Type::Error => "error",
        Type::Variant(_) => "variant",
        Type::Effect(_) => "effect",
        Type::EmptyRow => "emptyrow",
        Type::ExtendRow { .. } => "row",
        Type::ExtendTypeRow { .. } => "typerow",
        Type::Projection(_) => "projection",
        _ => "other",
    }
}

pub fn render_gluon(t: &ArcType) -> String {
    let mut r = Ren { names: vec![], scope: vec![], binders: 0 };
    r.ty(t, false)
}

// ---- a small untyped generator aimed at let-polymorphism and rows -------------------------------

struct Un<'t, 'a> {
    t: &'t mut Tape<'a>,
    n: u32,
}

impl<'t, 'a> Un<'t, 'a> {
    fn fresh(&mut self, p: &str) -> String {
        self.n += 1;
        format!("{}{}", p, self.n)
    }
    fn leaf(&mut self, scope: &[String]) -> Tm {
        match self.t.pick(6) {
            0 | 1 if !scope.is_empty() => Tm::Var(scope[self.t.pick(scope.len())].clone()),
            2 => Tm::Lit(Lit::Str("s".into())),
            3 => Tm::Var(if self.t.chance(1, 2) { "True" } else { "False" }.into()),
            4 => Tm::Unit,
            _ => Tm::Lit(Lit::Int(self.t.range(0, 3))),
        }
    }
    fn tm(&mut self, scope: &[String], size: usize, block: bool) -> Tm {
        if size == 0 || self.t.exhausted() {
            return self.leaf(scope);
        }
        let sub = size / 2;
        let fields = ["x", "y", "z"];
        // let and match also away from block positions (function position, tuple element, field,
        // scrutinee, argument), half as often
        let k = self.t.pick(18);
        // `let` only in block positions: a parenthesised block whose lines start left of the
        // enclosing block's column is not a layout gluon documents
        let k = if !block && (k == 13 || k == 14 || k >= 16 || (k == 15 && self.t.chance(1, 2))) { self.t.pick(13) } else { k };
        match k {
            16 | 17 => {
                // a match / if whose type is inferred without an expected type (function position,
                // tuple element, projection target, scrutinee) and whose alternatives are
                // functions, records or options
                let s = match self.t.pick(3) {
                    0 => Tm::Var(if self.t.chance(1, 2) { "True" } else { "False" }.into()),
                    _ => self.tm(scope, sub / 2, false),
                };
                let kind = self.t.pick(3);
                let mut alt = |me: &mut Self| -> Tm {
                    match kind {
                        0 => {
                            if !scope.is_empty() && me.t.chance(1, 4) {
                                Tm::Var(scope[me.t.pick(scope.len())].clone())
                            } else {
                                let x = me.fresh("a");
                                let mut sc = scope.to_vec();
                                sc.push(x.clone());
                                Tm::Lam(vec![x], Box::new(me.tm(&sc, sub / 2, false)))
                            }
                        }
                        1 => Tm::Record(vec![("x".to_string(), me.tm(scope, sub / 2, false)), ("y".to_string(), me.tm(scope, sub / 2, false))]),
                        _ => {
                            if me.t.chance(1, 3) {
                                Tm::Var("None".into())
                            } else {
                                Tm::Con("Some".into(), vec![me.tm(scope, sub / 2, false)])
                            }
                        }
                    }
                };
                let a = alt(self);
                let b = alt(self);
                let m = if self.t.chance(1, 3) {
                    Tm::If(Box::new(s), Box::new(a), Box::new(b))
                } else {
                    Tm::Match(Box::new(s), vec![(Pat::Con("True".into(), vec![]), a), (Pat::Con("False".into(), vec![]), b)])
                };
                let used = match kind {
                    0 => Tm::App(Box::new(m), vec![self.tm(scope, sub / 2, false)]),
                    1 => Tm::Proj(Box::new(m), "x".to_string()),
                    _ => {
                        let x = self.fresh("m");
                        let mut sc = scope.to_vec();
                        sc.push(x.clone());
                        let a = self.tm(&sc, sub / 2, false);
                        let b = self.tm(scope, sub / 2, false);
                        Tm::Match(Box::new(m), vec![(Pat::Con("Some".into(), vec![Pat::Var(x)]), a), (Pat::Con("None".into(), vec![]), b)])
                    }
                };
                // (only at the start of a block line: a multi-line match further right on a line
                // has its alternatives left of its own opening parenthesis, a layout gluon's
                // offside rule does not accept everywhere)
                used
            }
            0 => self.leaf(scope),
            1 | 2 => {
                // lambda
                let x = self.fresh("a");
                let mut sc = scope.to_vec();
                sc.push(x.clone());
                Tm::Lam(vec![x], Box::new(self.tm(&sc, sub, false)))
            }
            3 | 4 => {
                // application, preferably of something in scope
                let f = if !scope.is_empty() && self.t.chance(2, 3) {
                    Tm::Var(scope[self.t.pick(scope.len())].clone())
                } else {
                    self.tm(scope, sub, false)
                };
                let n = 1 + self.t.pick(2);
                let args = (0..n).map(|_| self.tm(scope, sub, false)).collect();
                Tm::App(Box::new(f), args)
            }
            5 => Tm::Tuple(vec![self.tm(scope, sub, false), self.tm(scope, sub, false)]),
            6 => {
                let n = 1 + self.t.pick(3);
                let mut used = vec![];
                let mut fs = vec![];
                for _ in 0..n {
                    let f = fields[self.t.pick(fields.len())];
                    if !used.contains(&f) {
                        used.push(f);
                        fs.push((f.to_string(), self.tm(scope, sub, false)));
                    }
                }
                Tm::Record(fs)
            }
            7 | 8 => {
                // field access (row polymorphism when the record is a parameter)
                let x = if !scope.is_empty() && self.t.chance(3, 4) {
                    Tm::Var(scope[self.t.pick(scope.len())].clone())
                } else {
                    self.tm(scope, sub, false)
                };
                let f = if self.t.chance(1, 5) { "_0".to_string() } else { fields[self.t.pick(fields.len())].to_string() };
                Tm::Proj(Box::new(x), f)
            }
            9 => Tm::If(
                Box::new(self.tm(scope, sub, false)),
                Box::new(self.tm(scope, sub, false)),
                Box::new(self.tm(scope, sub, false)),
            ),
            10 => Tm::Prim(
                *self.t.choose(&[Op::Add, Op::Eq, Op::Lt]),
                Num::Int,
                true,
                Box::new(self.tm(scope, sub, false)),
                Box::new(self.tm(scope, sub, false)),
            ),
            11 => {
                let n = self.t.pick(3);
                Tm::Array((0..n).map(|_| self.tm(scope, sub, false)).collect())
            }
            12 => {
                if self.t.chance(1, 2) {
                    Tm::Con("Some".into(), vec![self.tm(scope, sub, false)])
                } else {
                    Tm::Var("None".into())
                }
            }
            13 | 14 => {
                // let: a value or a function, used (possibly at several types) in the body
                let name = self.fresh("f");
                let nparams = self.t.pick(3);
                let params: Vec<String> = (0..nparams).map(|_| self.fresh("p")).collect();
                let mut sc = scope.to_vec();
                sc.extend(params.iter().cloned());
                if nparams > 0 && self.t.chance(1, 4) {
                    sc.push(name.clone());
                }
                let rhs = self.tm(&sc, sub, true);
                let mut sc2 = scope.to_vec();
                sc2.push(name.clone());
                let body = self.tm(&sc2, sub, true);
                Tm::Let(Box::new(FunBind { name, params, ty: None, body: rhs }), Box::new(body))
            }
            _ => {
                // match on an option or a tuple / record
                let s = self.tm(scope, sub, false);
                match self.t.pick(4) {
                    3 => {
                        let a = self.tm(scope, sub, false);
                        let b = self.tm(scope, sub, false);
                        Tm::Match(
                            Box::new(s),
                            vec![(Pat::Con("True".into(), vec![]), a), (Pat::Con("False".into(), vec![]), b)],
                        )
                    }
                    0 => {
                        let x = self.fresh("m");
                        let mut sc = scope.to_vec();
                        sc.push(x.clone());
                        let a = self.tm(&sc, sub, false);
                        let b = self.tm(scope, sub, false);
                        Tm::Match(
                            Box::new(s),
                            vec![(Pat::Con("Some".into(), vec![Pat::Var(x)]), a), (Pat::Con("None".into(), vec![]), b)],
                        )
                    }
                    1 => {
                        let x = self.fresh("m");
                        let y = self.fresh("m");
                        let mut sc = scope.to_vec();
                        sc.push(x.clone());
                        sc.push(y.clone());
                        let a = self.tm(&sc, sub, false);
                        Tm::Match(Box::new(s), vec![(Pat::Tuple(vec![Pat::Var(x), Pat::Var(y)]), a)])
                    }
                    _ => {
                        let f = fields[self.t.pick(fields.len())].to_string();
                        let mut sc = scope.to_vec();
                        sc.push(f.clone());
                        let a = self.tm(&sc, sub, false);
                        Tm::Match(Box::new(s), vec![(Pat::Record(vec![(f, None)]), a)])
                    }
                }
            }
        }
    }
}

fn untyped_program(t: &mut Tape, size: usize) -> Program {
    let mut g = Un { t, n: 0 };
    let body = g.tm(&[], size, true);
    Program { decls: vec![], body, ty: Ty::Unit, uses_host: false, features: vec![] }
}

// ---- metamorphic transformations ---------------------------------------------------------------

fn rename_pat(p: &Pat, suffix: &str) -> Pat {
    match p {
        Pat::Var(v) => Pat::Var(format!("{}{}", v, suffix)),
        Pat::Tuple(ps) => Pat::Tuple(ps.iter().map(|q| rename_pat(q, suffix)).collect()),
        // `{ x }` binds x: spell it out so that the field name stays
        Pat::Record(fs) => Pat::Record(
            fs.iter()
                .map(|(n, q)| {
                    (n.clone(), Some(match q {
                        Some(q) => rename_pat(q, suffix),
                        None => Pat::Var(format!("{}{}", n, suffix)),
                    }))
                })
                .collect(),
        ),
        Pat::Con(c, ps) => Pat::Con(c.clone(), ps.iter().map(|q| rename_pat(q, suffix)).collect()),
        Pat::As(v, q) => Pat::As(format!("{}{}", v, suffix), Box::new(rename_pat(q, suffix))),
        other => other.clone(),
    }
}

/// renames every variable (binders and uses alike; constructors and the polymorphic helpers of
/// the typed generator keep their names)
fn rename(t: &Tm, suffix: &str) -> Tm {
    let r = |x: &Tm| Box::new(rename(x, suffix));
    let keep = |v: &str| v.chars().next().map(|c| c.is_uppercase()).unwrap_or(false);
    let rn = |v: &String| if keep(v) { v.clone() } else { format!("{}{}", v, suffix) };
    let bind = |b: &FunBind| FunBind {
        name: rn(&b.name),
        params: b.params.iter().map(|p| rn(p)).collect(),
        ty: b.ty.clone(),
        body: rename(&b.body, suffix),
    };
    match t {
        Tm::Var(v) => Tm::Var(rn(v)),
        Tm::Lam(ps, b) => Tm::Lam(ps.iter().map(|p| rn(p)).collect(), r(b)),
        Tm::App(f, args) => Tm::App(r(f), args.iter().map(|a| rename(a, suffix)).collect()),
        Tm::Let(b, body) => Tm::Let(Box::new(bind(b)), r(body)),
        Tm::LetRec(bs, body) => Tm::LetRec(bs.iter().map(|b| bind(b)).collect(), r(body)),
        Tm::LetPat(p, a, b) => Tm::LetPat(rename_pat(p, suffix), r(a), r(b)),
        Tm::If(a, b, c) => Tm::If(r(a), r(b), r(c)),
        Tm::Prim(o, n, h, a, b) => Tm::Prim(*o, *n, *h, r(a), r(b)),
        Tm::And(a, b) => Tm::And(r(a), r(b)),
        Tm::Or(a, b) => Tm::Or(r(a), r(b)),
        Tm::Tuple(xs) => Tm::Tuple(xs.iter().map(|x| rename(x, suffix)).collect()),
        Tm::Array(xs) => Tm::Array(xs.iter().map(|x| rename(x, suffix)).collect()),
        Tm::Record(fs) => Tm::Record(fs.iter().map(|(n, x)| (n.clone(), rename(x, suffix))).collect()),
        Tm::Proj(x, f) => Tm::Proj(r(x), f.clone()),
        Tm::Update(fs, b) => Tm::Update(fs.iter().map(|(n, x)| (n.clone(), rename(x, suffix))).collect(), r(b)),
        Tm::Con(c, xs) => Tm::Con(c.clone(), xs.iter().map(|x| rename(x, suffix)).collect()),
        Tm::Match(s, arms) => Tm::Match(r(s), arms.iter().map(|(p, b)| (rename_pat(p, suffix), rename(b, suffix))).collect()),
        Tm::Host(h, a) => Tm::Host(*h, r(a)),
        Tm::Ann(x, ty) => Tm::Ann(r(x), ty.clone()),
        other => other.clone(),
    }
}

fn in_fragment(t: &Tm) -> bool {
    let mut ok = !matches!(t, Tm::Update(..) | Tm::Host(..) | Tm::HostFn(_) | Tm::Error(_));
    t.visit(&mut |x| {
        if matches!(x, Tm::Update(..) | Tm::Host(..) | Tm::HostFn(_) | Tm::Error(_)) {
            ok = false;
        }
        if let Tm::Prim(_, _, false, ..) = x {
            ok = false; // prelude operators go through implicit arguments
        }
    });
    if let Tm::Prim(_, _, false, ..) = t {
        ok = false;
    }
    ok
}

impl Property for C03 {
    fn id(&self) -> &'static str {
        "C03"
    }
    fn plan(&self, tier: Tier) -> Plan {
        Plan {
            random_cases: tier.pick(8000, 400_000),
            tape_len: tier.pick(250, 500),
            watchdog_s: 120,
            worker_recycle: 600,
            worker_stack: 64 << 20,
            ..Plan::default()
        }
    }
    fn gen(&self, t: &mut Tape, tier: Tier) -> Value {
        // half of the cases from the untyped generator
        let kind = [0usize, 0, 1, 2][t.pick(4)];
        let mut prog = match kind {
            0 => untyped_program(t, tier.pick(24, 48)),
            _ => {
                let cfg = GenCfg {
                    max_size: tier.pick(30, 60),
                    hash_only: true,
                    allow_host: false,
                    allow_fail: false,
                    avoid: vec!["record_update".into()],
                    ..GenCfg::default()
                };
                let mut p = gen_program(t, cfg);
                if kind == 2 {
                    let k = 1 + t.pick(2);
                    mutate(&mut p, t, k);
                }
                p
            }
        };
        prog.uses_host = false;
        let source = ["untyped", "typed_unannotated", "mutant"][kind];
        let style = Style { annotate: false, ..Style::default() };
        if !in_fragment(&prog.body) {
            return json!({"skip": "outside the fragment", "source": source});
        }
        let w = w::principal(&prog);
        let src = print_program(&prog, style, "");
        // metamorphic variants (only needed when W types the term)
        let renamed = Program { body: rename(&prog.body, "_r"), ..prog.clone() };
        let src_renamed = print_program(&renamed, style, "");
        let src_unused = format!("let unused_q = (\\q -> q, 1)\n{}", src);
        json!({"source": source, "src": src, "w": w.as_ref().ok().map(|x| x.0.clone()), "w_err": w.as_ref().err(),
               "poly": w.as_ref().map(|x| x.1).unwrap_or(false), "open_row": w.as_ref().map(|x| x.2).unwrap_or(false),
               "src_renamed": src_renamed, "src_unused": src_unused})
    }
    fn exec(&self, ctx: &mut WorkerCtx, case: &Value) -> Value {
        if case.get("skip").is_some() || case["w"].is_null() {
            return json!({"skipped": true});
        }
        if ctx.state.is_none() {
            ctx.state = Some(Box::new(gl::new_vm(Settings::default())));
        }
        let vm = ctx.state.as_ref().unwrap().downcast_ref::<gluon::RootedThread>().unwrap().clone();
        let check = |name: &str, src: &str| -> Value {
            match vm.typecheck_str(name, src, None) {
                Ok((_, t)) => json!({"ok": render_gluon(&t), "display": t.to_string()}),
                Err(e) => json!({"err": e.to_string().lines().take(80).collect::<Vec<_>>().join("\n")}),
            }
        };
        let base = check("c03", case["src"].as_str().unwrap());
        let mut out = json!({"base": base});
        if let Some(d) = base["display"].as_str() {
            out["renamed"] = check("c03", case["src_renamed"].as_str().unwrap());
            out["unused"] = check("c03", case["src_unused"].as_str().unwrap());
            // annotate with the printed type.  Printed qualifiers (`c03.T0`, `std.types.Option`)
            // are not resolvable names, they are removed; the annotation goes after the type
            // declarations of the program so that it can mention them.
            let printed = d.replace("c03.", "").replace("std.types.", "");
            let indented: String = printed.lines().map(|l| format!("        {}\n", l)).collect();
            let src = case["src"].as_str().unwrap();
            let mut decl_lines = vec![];
            let mut body_lines = vec![];
            let mut in_decls = true;
            for l in src.lines() {
                if in_decls && (l.starts_with("type ") || l.starts_with("    |")) {
                    decl_lines.push(l);
                } else {
                    in_decls = false;
                    body_lines.push(l);
                }
            }
            let decls: String = decl_lines.iter().map(|l| format!("{}\n", l)).collect();
            let body: String = body_lines.iter().map(|l| format!("    {}\n", l)).collect();
            let ann_src = format!("{}let annotated_q :\n{}    =\n{}annotated_q\n", decls, indented, body);
            out["annotated"] = check("c03", &ann_src);
            out["annotated_src"] = json!(ann_src);
        }
        out
    }
    fn judge(&self, case: &Value, obs: &Obs, kf: &KnownFindings) -> Judged {
        let mut j = Judged::pass();
        let source = case["source"].as_str().unwrap_or("");
        if case.get("skip").is_some() {
            j.classes.push(format!("{}:outside_fragment", source));
            return j;
        }
        if case["w"].is_null() {
            // W rejects: nothing is claimed about Gluon (its type system is larger)
            j.classes.push(format!("{}:not_typable_in_hm", source));
            return j;
        }
        let src = case["src"].as_str().unwrap_or("");
        let v = match obs {
            Obs::Ok(v) => v,
            Obs::TimedOut => {
                j.verdict = Verdict::Inconclusive("watchdog".into());
                return j;
            }
            other => {
                let (k, text) = match other {
                    Obs::Panicked { msg, loc } => ("panic", format!("{} at {}", msg, loc)),
                    Obs::Died { status, tail } => ("died", format!("{} {}", status, tail)),
                    _ => ("", String::new()),
                };
                j.verdict = match kf.matches("C03", k, &text, &[]) {
                    Some(id) => Verdict::Known(id),
                    None => Verdict::Violation(format!("type checking killed or panicked the host: {}\nsource:\n{}", other.to_json(), src)),
                };
                return j;
            }
        };
        let want = case["w"].as_str().unwrap_or("");
        let base_feats = features(src);
        let viol = |what: String| -> Verdict {
            let mut feats = base_feats.clone();
            feats.extend(error_features(&what));
            match kf.matches("C03", "wrong_value", &what, &feats) {
                Some(id) => Verdict::Known(id),
                None => Verdict::Violation(format!("{}\nsource ({}):\n{}", what, source, src)),
            }
        };
        let is_parse_error = |e: &str| e.contains("Unexpected token") || e.contains("Unexpected end of file") || e.contains("unexpected character");
        if let Some(e) = v["base"]["err"].as_str() {
            if is_parse_error(e) {
                // the printed concrete syntax is not the subject here (C08's): nothing is decided
                j.classes.push("printed_program_does_not_parse".into());
                j.verdict = Verdict::Inconclusive(format!("the printed program does not parse: {}", e.lines().take(3).collect::<Vec<_>>().join(" / ")));
                return j;
            }
            j.verdict = viol(format!(
                "typable in the ML fragment with principal type `{}` but rejected by the checker:\n{}",
                want, e
            ));
            return j;
        }
        let got = v["base"]["ok"].as_str().unwrap_or("");
        if got != want {
            j.verdict = viol(format!(
                "the reported type is not the principal type\n principal (algorithm W): {}\n reported (canonical):   {}\n reported (as printed):  {}",
                want,
                got,
                v["base"]["display"].as_str().unwrap_or("").replace('\n', " ")
            ));
            return j;
        }
        for (name, what) in [("renamed", "renaming all bound variables"), ("unused", "adding an unused binding in front"), ("annotated", "annotating the expression with its printed type")] {
            let r = &v[name];
            if let Some(e) = r["err"].as_str() {
                if name != "annotated" && (is_parse_error(e) || e.contains("std.monad.Monad")) {
                    // longer names moved a line break: the renamed text is laid out differently
                    // (two block lines read as a sequence); a printer artefact, nothing decided
                    j.classes.push("variant_program_does_not_parse".into());
                    j.verdict = Verdict::Inconclusive(format!("the {} variant does not parse as the same program", name));
                    return j;
                }
                let extra = if name == "annotated" { format!("\nannotated source:\n{}", v["annotated_src"].as_str().unwrap_or("")) } else { String::new() };
                j.verdict = viol(format!("{} makes the checker reject the program:\n{}{}", what, e, extra));
                return j;
            }
            if r["ok"].as_str() != Some(got) {
                j.verdict = viol(format!(
                    "{} changes the reported type\n before: {}\n after:  {}",
                    what,
                    got,
                    r["ok"].as_str().unwrap_or("")
                ));
                return j;
            }
        }
        j.evals = 4;
        j.classes.push(format!("{}:typable", source));
        if case["poly"] == true {
            j.classes.push("polymorphic_result".into());
        }
        if case["open_row"] == true {
            j.classes.push("open_row_in_result".into());
        }
        let let_poly = src.contains("let f") || src.contains("p_id") || src.contains("p_const");
        if (case["poly"] == true && let_poly) || case["open_row"] == true {
            j.nontrivial.push(fnv(src.as_bytes()));
        }
        j
    }
    fn rule(&self) -> String {
        "terms of the ML fragment (lambda, application, let with and without parameters, recursive function bindings, literals, if, tuples, ordered records, field access, record / tuple / constructor patterns, Option and declared variants, arrays, #Int primitives) from three sources: an untyped generator aimed at let-polymorphism and row polymorphism (size <= 24 / 48), typed-by-construction programs printed without any annotation, and AST mutants of those. An independent algorithm W with levels and rows decides typability and the principal type; only terms W types are judged: Gluon must accept them, its type (canonical rendering: variables numbered by first occurrence, closed rows in order, open rows as sets) must equal W's, and must not change under renaming of all binders, an unused binding in front, or annotating the whole expression with the printed type. The converse (W rejects => Gluon rejects) is not asserted. Non-trivial = polymorphic result of a term with a let-bound function, or an open row in the result; distinct by source hash".into()
    }
    fn assumptions(&self) -> Vec<String> {
        vec![
            "W's row discipline is the one probed in the design: closed rows ordered, open u open merges, open u closed closes".into(),
            "pattern lets (`let (a, b) = e`) are not generalised by W (their variables are monomorphic)".into(),
            "printed types mention locally declared types with the module qualifier `c03.`; it is stripped before the annotation check".into(),
        ]
    }
    fn describe(&self, case: &Value, obs: &Obs) -> Value {
        json!({"source": case["source"], "src": case["src"], "w": case["w"], "w_err": case["w_err"], "obs": obs.to_json()})
    }
}

fn features(src: &str) -> Vec<String> {
    let mut f = vec![];
    if src.contains("if ") {
        f.push("if_expression".into());
    }
    if src.contains("match ") {
        f.push("match_expression".into());
    }
    if src.contains('[') {
        f.push("array_literal".into());
    }
    if src.lines().any(|l| l.trim_start().starts_with("let (") || l.trim_start().starts_with("let {")) {
        f.push("pattern_let".into());
    }
    f
}

/// canonical type text with the fields of every `{ .. }` sorted
fn sort_rows(t: &str) -> String {
    let cs: Vec<char> = t.chars().collect();
    fn go(cs: &[char], i: &mut usize, close: Option<char>) -> String {
        // reads up to the closing delimiter (consumed); inside braces the comma separated items
        // are sorted
        let mut items: Vec<String> = vec![String::new()];
        while *i < cs.len() {
            let c = cs[*i];
            *i += 1;
            if Some(c) == close {
                break;
            }
            match c {
                '{' => {
                    let inner = go(cs, i, Some('}'));
                    items.last_mut().unwrap().push_str(&format!("{{{}}}", inner));
                }
                '(' => {
                    let inner = go(cs, i, Some(')'));
                    items.last_mut().unwrap().push_str(&format!("({})", inner));
                }
                ',' if close == Some('}') => items.push(String::new()),
                c => items.last_mut().unwrap().push(c),
            }
        }
        if close == Some('}') {
            let mut items: Vec<String> = items.iter().map(|x| x.trim().to_string()).collect();
            items.sort();
            items.join(", ")
        } else {
            items.concat()
        }
    }
    let mut i = 0;
    go(&cs, &mut i, None)
}

/// In a rendered diagnostic (`NN │ source line` followed by `   │   ^^^^`): is the text left of
/// the first marked span the start of a record field initialiser or a tuple / array component?
fn marked_span_is_component(what: &str) -> bool {
    let lines: Vec<&str> = what.lines().collect();
    for i in 0..lines.len().saturating_sub(1) {
        let (src_line, mark_line) = (lines[i], lines[i + 1]);
        let bar = match src_line.find('│') {
            Some(b) => b,
            None => continue,
        };
        let mbar = match mark_line.find('│') {
            Some(b) => b,
            None => continue,
        };
        let marks = &mark_line[mbar + '│'.len_utf8()..];
        let col = match marks.find('^') {
            Some(c) => c,
            None => continue,
        };
        let text = &src_line[bar + '│'.len_utf8()..];
        // the marker's column counts display cells: a wide character left of it shifts it by one
        let cells = marks[..col].chars().count();
        let wide = text.chars().filter(|c| !c.is_ascii()).count();
        for shift in 0..=wide.min(cells) {
            let before: String = text.chars().take(cells - shift).collect();
            let before = before.trim_end();
            if before.ends_with('(') || before.ends_with(',') || before.ends_with('[') {
                return true;
            }
            if let Some(b) = before.strip_suffix('=') {
                // `{ name =` or `, name =`: a field, not a let binding
                let b = b.trim_end();
                let name_start = b.rfind(|c: char| !(c.is_alphanumeric() || c == '_')).map(|p| p + 1).unwrap_or(0);
                let left = b[..name_start].trim_end();
                if left.ends_with('{') || left.ends_with(',') {
                    return true;
                }
            }
        }
        return false;
    }
    false
}

/// features of a checker error message that identify the recorded findings
fn error_features(what: &str) -> Vec<String> {
    let mut f = vec![];
    let line_after = |key: &str| -> Option<String> {
        what.lines().find(|l| l.trim_start().starts_with(key)).map(|l| l.trim_start()[key.len()..].trim().to_string())
    };
    let (e, g) = (line_after("Expected:"), line_after("Found:"));
    if let (Some(e), Some(g)) = (&e, &g) {
        // both sides print identically and carry a quantifier inside a field / component:
        // fields of records and tuples are generalised separately and then do not unify
        if e == g && e.contains("forall") {
            f.push("separately_generalised_fields_do_not_unify".into());
        }
        // the annotation carries the inner quantifier that was printed for the inferred type
        // (inside a component: a quantifier in front of the whole type is another matter)
        if e.contains("forall") && !e.starts_with("forall") && e.replace("forall a . ", "") == *g {
            f.push("separately_generalised_fields_do_not_unify".into());
        }
        // a tuple / record pattern against a right-hand side that was generalised as a whole
        if g.starts_with("forall") && (e.starts_with('(') || e.starts_with('{')) && !e.contains("forall") {
            f.push("pattern_against_generalised_rhs".into());
        }
    }
    // in multi-line renderings: a field or component whose type starts with a quantifier (the
    // quantifier in front of a whole `Expected:` / `Found:` type does not count)
    let inner: String = what
        .lines()
        .map(|l| {
            let l = l.trim_start();
            let l = l.strip_prefix("Expected:").or_else(|| l.strip_prefix("Found:")).unwrap_or(l);
            // one line, single spaces: a type broken over several lines reads `.., forall a . ..`
            format!("{} ", l.trim())
        })
        .collect();
    let component_forall = |text: &str| text.contains(": forall ") || text.contains(", forall ") || text.contains("(forall ");
    if what.contains("Expected the following types to be equal") && component_forall(&inner) {
        if !f.iter().any(|x| x == "separately_generalised_fields_do_not_unify" || x == "pattern_against_generalised_rhs") {
            f.push("separately_generalised_fields_do_not_unify".into());
        }
    }
    // the mismatch is reported at a field initialiser / tuple or array component (the text left
    // of the marked span ends with `name =`, `(`, `,` or `[`) and one side is that component's
    // separately generalised type
    if let (Some(e), Some(g)) = (&e, &g) {
        if (e.starts_with("forall") || g.starts_with("forall")) && marked_span_is_component(what) {
            if !f.iter().any(|x| x == "separately_generalised_fields_do_not_unify") {
                f.push("separately_generalised_fields_do_not_unify".into());
            }
        }
    }
    // the reported (non-principal) type carries a quantifier inside a field / component
    // (separate generalisation only ever splits one variable into several: a reported type with
    // fewer distinct variables than the principal one identifies variables that must differ,
    // which is another defect - cf. the capture repaired as KF-C03-06)
    if what.contains("the reported type is not the principal type") && component_forall(what) {
        let field = |key: &str| what.lines().find_map(|l| l.trim_start().strip_prefix(key)).map(|x| x.trim().to_string());
        let distinct = |t: &str| -> usize {
            let mut seen: Vec<String> = vec![];
            let cs: Vec<char> = t.chars().collect();
            let mut i = 0;
            while i < cs.len() {
                if cs[i] == '?' {
                    let mut j = i + 1;
                    while j < cs.len() && cs[j].is_ascii_digit() {
                        j += 1;
                    }
                    let v: String = cs[i..j].iter().collect();
                    if !seen.contains(&v) {
                        seen.push(v);
                    }
                    i = j;
                } else {
                    i += 1;
                }
            }
            seen.len()
        };
        if let (Some(want), Some(got)) = (field("principal (algorithm W):"), field("reported (canonical):")) {
            if distinct(&got) >= distinct(&want) {
                f.push("separately_generalised_fields_do_not_unify".into());
            }
        }
    }
    // a generalised (rigid) variable against a concrete type
    if let (Some(e), Some(g)) = (&e, &g) {
        let is_var = |s: &str| {
            let mut cs = s.chars();
            matches!(cs.next(), Some(c) if c.is_ascii_lowercase()) && cs.all(|c| c.is_ascii_digit())
        };
        if is_var(e) != is_var(g) {
            f.push("generalised_variable_against_concrete_type".into());
        }
    }
    // the checker's row defect (KF-C02-01/05) seen from here: the reported type is the principal
    // one except that closed record rows are left open
    if what.contains("the reported type is not the principal type") {
        let field = |key: &str| what.lines().find_map(|l| l.trim_start().strip_prefix(key)).map(|x| x.trim().to_string());
        if let (Some(want), Some(got)) = (field("principal (algorithm W):"), field("reported (canonical):")) {
            // remove every ` | ?<digits>` tail
            let mut closed = String::new();
            let mut rest = got.as_str();
            let mut removed = 0;
            while let Some(p) = rest.find(" | ?") {
                closed.push_str(&rest[..p]);
                let after = &rest[p + 4..];
                let n = after.chars().take_while(|c| c.is_ascii_digit()).count();
                rest = &after[n..];
                removed += 1;
            }
            closed.push_str(rest);
            // the open row also loses the record's field order: compare rows as sets
            if removed > 0 && sort_rows(&closed) == sort_rows(&want) && !want.contains(" | ?") {
                f.push("closed_row_reported_open".into());
            }
        }
    }
    if what.contains("Unexpected token: Pipe") && what.contains(" | ") {
        f.push("open_tuple_row_printed_as_parenthesised_alternatives".into());
    }
    f
}

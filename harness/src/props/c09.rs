//! C09 — the front end is total: any text yields a result or renderable errors.
use gluon::base::error::InFile;
use gluon::base::pos::{BytePos, Spanned};
use gluon::base::types::TypeCache;
use gluon::{RootedThread, ThreadExt};
use serde_json::{json, Value};

use crate::engine::*;
use crate::gl::{self, Settings};
use crate::props::c06::last_lines;
use crate::tape::{fnv, Tape};
use crate::textmut;

pub struct C09;

const MAX_BYTES: usize = 4096;

const HAND: &[&str] = &[
    "\"\\u{110000}\"",
    "\"\\q\"",
    "'\\q'",
    "'é'",
    "'aé'",
    "'é",
    "\"abc",
    "r#\"abc",
    "/* unterminated",
    "let build n acc = if n == 0 then acc else build (n - 1) (Some acc) in build 3 None",
    "let f x = f in f",
    "let x = x x in x",
    "\\x -> x x",
    "type T = T in 1",
    "type A = B\nand B = A\n1",
    "rec type A = | A B\ntype B = | B A\nin 1",
    "let { x, y } = { x = 1 } in x",
    "match 1 with",
    "if then else",
    "let = in",
    "((((((((((((((((((((((((((((((((((((((((((((((((((((((((((((((((1",
    "#[infix(left, 99999999999999999999)]\nlet (+++) a b = a\n1 +++ 2",
    "#[derive(Foo)]\ntype T = | A\n1",
    "import! \"\"",
    "import! std.nonexistent.module",
    "import!",
    "lift_io! 1 2 3",
    "1 + + 2",
    "1.2.3",
    "0x",
    "99999999999999999999999999",
    "256b",
    "\u{FEFF}1",
    "let é = 1 in é",
    "{ x = 1, x = 2 }.x",
    "let f : forall a . a -> a = \\x -> x\nf f f f f f f f f f f f f f f f f f 1",
    "do x = 1\nx",
    "seq 1\n2",
    "let x =\n1\n  2\n    3\n x",
    "\t\tlet x = 1\n\tx",
    "let x = 1\r\nx\r\n",
    "[| |]",
    "let f ?x : [Int] -> Int = x in f",
    "type F a = a -> F a in 1",
    "let f (x : Int) = x in f",
    "1 : Int : Int",
    "x.y.z.",
    ".",
    "..",
    "{ .. }",
    "{ x, .. y, z }",
];


// ---- near-valid programs: declarations over a small pool of names ---------------------------------
//
// Token soup rarely gets past the parser and mutants of the corpus stay close to well-kinded code.
// This generator composes type declarations (aliases that are cyclic, divergent, ill-kinded,
// with repeated parameters, with derive attributes), value bindings with annotations that use
// them, and expressions that project / match / apply through them; every name comes from a tiny
// pool so that uses hit declarations by accident.

const TNAMES: &[&str] = &["A", "B", "R", "T"];
const VNAMES: &[&str] = &["x", "y", "f", "g"];
const FNAMES: &[&str] = &["x", "y", "foo", "_0"];
const MODULES: &[&str] = &["c09", "std.prelude", "std.types", "std.list", "std.nonexistent", "c09.x", "std.json.de", "h"];
const DERIVES: &[&str] = &["Eq", "Show", "Serialize", "Deserialize", "Foo", "Eq, Show", "Serialize, Deserialize", ""];

fn ds_type(t: &mut Tape, depth: usize) -> String {
    let leaf = depth >= 3;
    match t.pick(if leaf { 7 } else { 18 }) {
        0 => "Int".into(),
        1 => "String".into(),
        2 | 3 => t.choose(TNAMES).to_string(),
        4 => "a".into(),
        5 => "_".into(),
        6 => "()".into(),
        7 => format!("{} -> {}", ds_type(t, depth + 1), ds_type(t, depth + 1)),
        8 => format!("{} {}", t.choose(TNAMES), ds_atom(t, depth + 1)),
        9 => format!("{} {} {}", t.choose(TNAMES), ds_atom(t, depth + 1), ds_atom(t, depth + 1)),
        10 => {
            let n = t.pick(3);
            let fs: Vec<String> = (0..n).map(|_| format!("{} : {}", t.choose(FNAMES), ds_type(t, depth + 1))).collect();
            format!("{{ {} }}", fs.join(", "))
        }
        11 => {
            let n = 1 + t.pick(3);
            let cs: Vec<String> = (0..n)
                .map(|_| {
                    let k = t.pick(3);
                    let args: Vec<String> = (0..k).map(|_| ds_atom(t, depth + 1)).collect();
                    format!("| {} {}", t.choose(TNAMES), args.join(" "))
                })
                .collect();
            cs.join(" ")
        }
        12 => format!("forall a . {}", ds_type(t, depth + 1)),
        13 => format!("Array {}", ds_atom(t, depth + 1)),
        14 => format!("({}, {})", ds_type(t, depth + 1), ds_type(t, depth + 1)),
        15 => format!("[| x : {} | a |] {}", ds_atom(t, depth + 1), ds_atom(t, depth + 1)),
        16 => format!("{{ {} : {} | a }}", t.choose(FNAMES), ds_type(t, depth + 1)),
        _ => format!("[{}] -> {}", ds_type(t, depth + 1), ds_type(t, depth + 1)),
    }
}

fn ds_atom(t: &mut Tape, depth: usize) -> String {
    let x = ds_type(t, depth);
    if x.contains(' ') && !x.starts_with('{') && !x.starts_with('(') {
        format!("({})", x)
    } else {
        x
    }
}

fn ds_lexeme(t: &mut Tape) -> String {
    // number-like lexemes: groups of digits (sometimes letters, sometimes empty) joined by the
    // characters that have a meaning inside or next to numeric literals
    let groups = 1 + t.pick(4);
    let mut s = String::new();
    if t.chance(1, 6) {
        s.push('-');
    }
    for g in 0..groups {
        if g > 0 {
            s.push_str(*t.choose(&["_", ".", "e", "E", "x", "b", "f", "-", "+", "_.", "._", "..", "'", "\""]));
        }
        if g > 0 && t.chance(1, 4) {
            continue;
        }
        for _ in 0..1 + t.pick(3) {
            s.push(*t.choose(&['0', '1', '9', '7', '0', '1', 'a', 'f', 'Z']));
        }
    }
    if t.chance(1, 4) {
        s.push_str(*t.choose(&["_", ".", "b", "e", "x"]));
    }
    s
}

fn ds_expr(t: &mut Tape, depth: usize) -> String {
    let leaf = depth >= 3;
    match t.pick(if leaf { 8 } else { 24 }) {
        0 | 1 => t.choose(VNAMES).to_string(),
        2 => t.range(0, 3).to_string(),
        3 => "\"s\"".into(),
        4 => t.choose(TNAMES).to_string(),
        5 => "()".into(),
        6 => ds_lexeme(t),
        7 => format!("import! {}", t.choose(MODULES)),
        8 | 9 => format!("{}.{}", t.choose(VNAMES), t.choose(FNAMES)),
        10 => format!("{} {}", t.choose(VNAMES), ds_eatom(t, depth + 1)),
        11 => format!("{} {}", t.choose(TNAMES), ds_eatom(t, depth + 1)),
        12 => {
            let n = t.pick(3);
            let fs: Vec<String> = (0..n)
                .map(|_| if t.chance(1, 4) { t.choose(FNAMES).to_string() } else { format!("{} = {}", t.choose(FNAMES), ds_expr(t, depth + 1)) })
                .collect();
            format!("{{ {} }}", fs.join(", "))
        }
        13 => format!("match {} with | {} -> {} | {} -> {}", ds_eatom(t, depth + 1), ds_pat(t), ds_eatom(t, depth + 1), ds_pat(t), ds_eatom(t, depth + 1)),
        14 => format!("\\{} -> {}", t.choose(VNAMES), ds_expr(t, depth + 1)),
        15 => format!("if {} then {} else {}", ds_eatom(t, depth + 1), ds_eatom(t, depth + 1), ds_eatom(t, depth + 1)),
        16 => format!("[{}, {}]", ds_expr(t, depth + 1), ds_expr(t, depth + 1)),
        17 => format!("({} : {})", ds_expr(t, depth + 1), ds_type(t, 1)),
        18 => format!("{} {} {}", ds_eatom(t, depth + 1), t.choose(&["+", "==", "<>", "#Int+", "<|", "&&", ">>=", "."]), ds_eatom(t, depth + 1)),
        19 => format!("({}, {})", ds_expr(t, depth + 1), ds_expr(t, depth + 1)),
        20 => format!("{{ {} = {}, .. {} }}", t.choose(FNAMES), ds_expr(t, depth + 1), t.choose(VNAMES)),
        21 => format!("let {} = {} in {}", t.choose(VNAMES), ds_expr(t, depth + 1), ds_expr(t, depth + 1)),
        22 => format!("{}.{}.{}", t.choose(VNAMES), t.choose(FNAMES), t.choose(FNAMES)),
        _ => format!("{} {} {}", t.choose(VNAMES), ds_eatom(t, depth + 1), ds_eatom(t, depth + 1)),
    }
}

fn ds_eatom(t: &mut Tape, depth: usize) -> String {
    let x = ds_expr(t, depth);
    if x.contains(' ') && !x.starts_with('{') && !x.starts_with('(') && !x.starts_with('[') {
        format!("({})", x)
    } else {
        x
    }
}

fn ds_pat(t: &mut Tape) -> String {
    match t.pick(8) {
        0 => "_".into(),
        1 => t.choose(VNAMES).to_string(),
        2 => format!("{} {}", t.choose(TNAMES), t.choose(VNAMES)),
        3 => t.choose(TNAMES).to_string(),
        4 => format!("{{ {} }}", t.choose(FNAMES)),
        5 => format!("{{ {} = {} }}", t.choose(FNAMES), t.choose(VNAMES)),
        6 => format!("({}, {})", t.choose(VNAMES), t.choose(VNAMES)),
        _ => t.range(0, 2).to_string(),
    }
}

fn ds_attr(t: &mut Tape) -> String {
    match t.pick(9) {
        0 | 1 | 2 => format!("#[derive({})]\n", t.choose(DERIVES)),
        3 => "#[implicit]\n".into(),
        4 => "#[infix(left, 4)]\n".into(),
        5 => "#[doc(hidden)]\n".into(),
        6 => format!("#[{}\n", t.choose(&["foo", "derive(Eq", "derive(", ""])),
        7 => format!("#[{}({})]\n", t.choose(&["derive", "infix", "foo"]), ds_lexeme(t)),
        _ => "/// doc\n".into(),
    }
}

fn gen_decl_soup(t: &mut Tape) -> String {
    let n = 1 + t.pick(6);
    let mut s = String::new();
    for _ in 0..n {
        if t.chance(1, 3) {
            s.push_str(&ds_attr(t));
        }
        match t.pick(12) {
            0 | 1 => s.push_str(&format!("type {} = {}\n", t.choose(TNAMES), ds_type(t, 0))),
            2 => s.push_str(&format!("type {} a = {}\n", t.choose(TNAMES), ds_type(t, 0))),
            3 => s.push_str(&format!("type {} {} {} = {}\n", t.choose(TNAMES), t.choose(&["a", "b"]), t.choose(&["a", "b"]), ds_type(t, 0))),
            4 => {
                // a group
                s.push_str(&format!("rec\ntype {} = {}\ntype {} a = {}\nin\n", t.choose(TNAMES), ds_type(t, 0), t.choose(TNAMES), ds_type(t, 0)))
            }
            5 | 6 => s.push_str(&format!("let {} : {} = {}\n", t.choose(VNAMES), ds_type(t, 1), ds_expr(t, 1))),
            7 => s.push_str(&format!("let {} {} : {} = {}\n", t.choose(VNAMES), t.choose(VNAMES), ds_type(t, 1), ds_expr(t, 1))),
            8 => s.push_str(&format!("let {} = {}\n", ds_pat(t), ds_expr(t, 1))),
            9 => s.push_str(&format!("rec let {} {} = {}\n", t.choose(VNAMES), t.choose(VNAMES), ds_expr(t, 1))),
            10 => s.push_str(&format!("do {} = {}\n", t.choose(VNAMES), ds_expr(t, 1))),
            _ => s.push_str(&format!("let {} ?{} : [{}] -> {} = {}\n", t.choose(VNAMES), t.choose(VNAMES), ds_type(t, 2), ds_type(t, 2), ds_expr(t, 1))),
        }
    }
    if !t.chance(1, 8) {
        s.push_str(&ds_expr(t, 0));
    }
    s
}

fn check_infile<E: std::fmt::Display>(inf: &InFile<E>, problems: &mut Vec<String>, nspans: &mut usize) {
    let errs: &gluon::base::error::Errors<Spanned<E, BytePos>> = inf.errors();
    for e in errs.iter() {
        *nspans += 1;
        let s = e.span;
        let (a, b) = (s.start(), s.end());
        if a > b {
            problems.push(format!("span start {} > end {} ({})", a, b, first_line(&e.value.to_string())));
            continue;
        }
        match inf.source().get(a) {
            None => problems.push(format!(
                "span start {} lies in no source file ({})",
                a,
                first_line(&e.value.to_string())
            )),
            Some(fm) => {
                let fs = fm.span();
                if a < fs.start() || b > fs.end() {
                    problems.push(format!(
                        "span {}..{} outside its file {} ({}..{}) ({})",
                        a,
                        b,
                        fm.name(),
                        fs.start(),
                        fs.end(),
                        first_line(&e.value.to_string())
                    ));
                    continue;
                }
                let ra = (a.to_usize() - fs.start().to_usize()) as usize;
                let rb = (b.to_usize() - fs.start().to_usize()) as usize;
                let src = fm.source();
                if !src.is_char_boundary(ra) || !src.is_char_boundary(rb) {
                    problems.push(format!(
                        "span {}..{} (relative {}..{}) of file {} is not on character boundaries ({})",
                        a,
                        b,
                        ra,
                        rb,
                        fm.name(),
                        first_line(&e.value.to_string())
                    ));
                }
            }
        }
    }
}

fn first_line(s: &str) -> String {
    s.lines().next().unwrap_or("").chars().take(160).collect()
}

fn check_error(e: &gluon::Error, problems: &mut Vec<String>, nspans: &mut usize) {
    use gluon::Error as E;
    match e {
        E::Parse(inf) => check_infile(inf, problems, nspans),
        E::Typecheck(inf) => check_infile(inf, problems, nspans),
        E::Macro(inf) => check_infile(inf, problems, nspans),
        E::Multiple(es) => {
            for x in es.iter() {
                check_error(x, problems, nspans)
            }
        }
        _ => {}
    }
}

fn vm(ctx: &mut WorkerCtx) -> &RootedThread {
    if ctx.state.is_none() {
        ctx.state = Some(Box::new(gl::new_vm(Settings::default())));
    }
    ctx.state.as_ref().unwrap().downcast_ref::<RootedThread>().unwrap()
}

impl Property for C09 {
    fn id(&self) -> &'static str {
        "C09"
    }
    fn plan(&self, tier: Tier) -> Plan {
        Plan {
            random_cases: tier.pick(20_000, 1_000_000),
            tape_len: 400,
            watchdog_s: 30,
            worker_recycle: 1000,
            // "moderate nesting" is judged on an ordinary 8 MiB stack
            worker_stack: 8 << 20,
            // a front-end call on <= 4 KiB that burns 40 CPU seconds or 3 GiB is a hang
            hang_cpu_s: Some(40),
            hang_rss_mb: 3072,
            ..Plan::default()
        }
    }
    fn fixed_cases(&self, _tier: Tier) -> Vec<Value> {
        let mut out = vec![];
        for h in HAND {
            for p in [true, false] {
                out.push(json!({"src": h, "prelude": p, "kind": "hand"}));
            }
        }
        for (_, src) in &textmut::corpus().files {
            out.push(json!({"src": textmut::clamp_bytes(src, MAX_BYTES), "prelude": true, "kind": "corpus"}));
        }
        out
    }
    fn gen(&self, t: &mut Tape, _tier: Tier) -> Value {
        let mode = t.pick(14);
        let prelude = t.chance(1, 3);
        let (src, kind) = match mode {
            0 => (textmut::random_utf8(t, 200), "random_bytes".to_string()),
            1 => (textmut::random_chars(t, 120), "random_chars".to_string()),
            2 | 3 => (textmut::soup(t, 60), "token_soup".to_string()),
            4 | 5 | 6 | 7 => (gen_decl_soup(t), "decl_soup".to_string()),
            _ => {
                let win = if t.chance(1, 2) { 600 } else { MAX_BYTES };
                let base = textmut::corpus_window(t, win);
                let other = textmut::corpus_window(t, 400);
                let (s, kinds) = textmut::mutate(t, &base, 4, &other);
                (s, format!("mutant:{}", kinds.join("+")))
            }
        };
        json!({"src": textmut::clamp_bytes(&src, MAX_BYTES), "prelude": prelude, "kind": kind})
    }
    fn exec(&self, ctx: &mut WorkerCtx, case: &Value) -> Value {
        let src = case["src"].as_str().unwrap_or("");
        let prelude = case["prelude"].as_bool().unwrap_or(false);
        let vm = vm(ctx);
        vm.get_database_mut().set_implicit_prelude(prelude);
        let mut problems: Vec<String> = vec![];
        let mut nspans = 0usize;
        // stage 1: parser alone, with recovery
        let parse = match vm.parse_partial_expr(&TypeCache::new(), "c09", src) {
            Ok(_) => "ok".to_string(),
            Err(salvage) => {
                check_infile(&salvage.error, &mut problems, &mut nspans);
                match salvage.error.emit_string() {
                    Ok(s) if !s.trim().is_empty() => {}
                    Ok(_) => problems.push("parse errors render to an empty string".into()),
                    Err(e) => problems.push(format!("parse errors cannot be rendered: {}", e)),
                }
                if salvage.value.is_some() {
                    "err_salvaged".to_string()
                } else {
                    "err".to_string()
                }
            }
        };
        // stage 2: the whole front end
        let (tc, class) = match vm.typecheck_str("c09", src, None) {
            Ok(_) => ("ok".to_string(), String::new()),
            Err(e) => {
                check_error(&e, &mut problems, &mut nspans);
                match e.emit_string() {
                    Ok(s) if !s.trim().is_empty() => {}
                    Ok(_) => problems.push("errors render to an empty string".into()),
                    Err(er) => problems.push(format!("errors cannot be rendered: {}", er)),
                }
                ("err".to_string(), gl::classify(&e).0)
            }
        };
        json!({"parse": parse, "tc": tc, "class": class, "spans": nspans, "problems": problems})
    }
    fn judge(&self, case: &Value, obs: &Obs, kf: &KnownFindings) -> Judged {
        let mut j = Judged::pass();
        let src = case["src"].as_str().unwrap_or("");
        let kind = case["kind"].as_str().unwrap_or("");
        j.classes.push(format!("src:{}", kind.split(':').next().unwrap_or("")));
        // input features a known finding may be keyed on
        let mut feats = vec![kind.to_string()];
        if src.contains("derive(") {
            feats.push("derive_attribute".to_string());
        }
        if src.contains("[|") {
            feats.push("effect_row".to_string());
        }
        if src.contains("import! c09") {
            feats.push("imports_own_module".to_string());
        }
        if src.split(|c: char| !c.is_alphanumeric() && c != '_').any(|w| w == "type") {
            feats.push("type_definition".to_string());
        }
        let show = || format!("input ({} bytes, implicit prelude {}):\n{}", src.len(), case["prelude"], src);
        match obs {
            Obs::TimedOut => {
                j.verdict = Verdict::Inconclusive("watchdog (30 s) hit".into());
            }
            Obs::Hung { cpu_s, rss_mb } => {
                let text = format!("{} CPU seconds, {} MiB resident", cpu_s, rss_mb);
                j.verdict = match kf.matches("C09", "hang", &text, &feats) {
                    Some(id) => Verdict::Known(id),
                    None => Verdict::Violation(format!(
                        "the front end does not return: {} consumed on this input without an answer\n{}",
                        text,
                        show()
                    )),
                };
            }
            Obs::Panicked { msg, loc } => {
                let text = format!("{} at {}", msg, loc);
                j.verdict = match kf.matches("C09", "panic", &text, &feats) {
                    Some(id) => Verdict::Known(id),
                    None => Verdict::Violation(format!("front end panicked: {}\n{}", text, show())),
                };
            }
            Obs::Died { status, tail } => {
                let text = format!("{} {}", status, tail);
                j.verdict = match kf.matches("C09", "died", &text, &feats) {
                    Some(id) => Verdict::Known(id),
                    None => Verdict::Violation(format!(
                        "front end killed the process ({})\n{}\n--- stderr tail ---\n{}",
                        status,
                        show(),
                        last_lines(tail, 5)
                    )),
                };
            }
            Obs::Ok(v) => {
                let probs = v["problems"].as_array().cloned().unwrap_or_default();
                if !probs.is_empty() {
                    let text = probs.iter().map(|p| p.as_str().unwrap_or("").to_string()).collect::<Vec<_>>().join("; ");
                    j.verdict = match kf.matches("C09", "bad_error", &text, &feats) {
                        Some(id) => Verdict::Known(id),
                        None => Verdict::Violation(format!("reported errors are not well formed: {}\n{}", text, show())),
                    };
                    return j;
                }
                let parse = v["parse"].as_str().unwrap_or("");
                let tc = v["tc"].as_str().unwrap_or("");
                j.classes.push(format!("parse:{}", parse));
                j.classes.push(format!("tc:{}{}", tc, if tc == "err" { format!(":{}", v["class"].as_str().unwrap_or("")) } else { String::new() }));
                let ntok = textmut::tokenize(src).iter().filter(|t| !t.trim().is_empty()).count();
                if parse == "err_salvaged" || (tc == "err" && parse == "ok") || (tc == "ok" && ntok >= 20) {
                    j.nontrivial.push(fnv(src.as_bytes()) ^ case["prelude"].as_bool().unwrap_or(false) as u64);
                }
            }
        }
        j
    }
    fn rule(&self) -> String {
        "inputs <= 4 KiB: random UTF-8, random characters, token soup over gluon's vocabulary with random indentation, and 1-4 token-level mutations (delete/duplicate/swap/replace/insert/truncate/re-indent/splice/wrap<=64/rename identifier/retype literal/self-apply/insert char) of windows of every .glu file in the repository; each run through parse_partial_expr and typecheck_str. Non-trivial = distinct inputs that produced errors with a salvaged AST, or passed the parser and failed later (macro/rename/typecheck recovery ran), or were accepted with >= 20 tokens".into()
    }
    fn assumptions(&self) -> Vec<String> {
        vec![
            "moderate nesting = up to 64 levels of generated bracket/lambda/record wrapping, judged on an 8 MiB stack in a dev-profile build (opt-level 1, debug assertions on)".into(),
            "hang criterion: one front-end call on <= 4 KiB of input has consumed 40 seconds of its own CPU time (user + system of the worker process, independent of machine load; ordinary cases take 1-50 ms, the slowest corpus file about 1 s) or 3 GiB of resident memory without returning; a wall-clock time-out without that much CPU is inconclusive".into(),
            "spans are checked for parse, macro and typecheck errors (the error kinds that carry spans)".into(),
        ]
    }
    fn describe(&self, case: &Value, obs: &Obs) -> Value {
        json!({"kind": case["kind"], "prelude": case["prelude"], "src": case["src"], "obs": obs.to_json()})
    }
}

//! C09 — the front end is total: any text yields a result or renderable errors.
use gluon::base::error::InFile;
use gluon::base::pos::{BytePos, Spanned};
use gluon::base::types::TypeCache;
use gluon::{RootedThread, ThreadExt};
use serde_json::{json, Value};

use crate::engine::*;
use crate::gl::{self, Settings};
use crate::props::c06::last_lines;
use crate::tape::{fnv, Tape};
use crate::textmut;

pub struct C09;

const MAX_BYTES: usize = 4096;

const HAND: &[&str] = &[
    "\"\\u{110000}\"",
    "\"\\q\"",
    "'\\q'",
    "'é'",
    "'aé'",
    "'é",
    "\"abc",
    "r#\"abc",
    "/* unterminated",
    "let build n acc = if n == 0 then acc else build (n - 1) (Some acc) in build 3 None",
    "let f x = f in f",
    "let x = x x in x",
    "\\x -> x x",
    "type T = T in 1",
    "type A = B\nand B = A\n1",
    "rec type A = | A B\ntype B = | B A\nin 1",
    "let { x, y } = { x = 1 } in x",
    "match 1 with",
    "if then else",
    "let = in",
    "((((((((((((((((((((((((((((((((((((((((((((((((((((((((((((((((1",
    "#[infix(left, 99999999999999999999)]\nlet (+++) a b = a\n1 +++ 2",
    "#[derive(Foo)]\ntype T = | A\n1",
    "import! \"\"",
    "import! std.nonexistent.module",
    "import!",
    "lift_io! 1 2 3",
    "1 + + 2",
    "1.2.3",
    "0x",
    "99999999999999999999999999",
    "256b",
    "\u{FEFF}1",
    "let é = 1 in é",
    "{ x = 1, x = 2 }.x",
    "let f : forall a . a -> a = \\x -> x\nf f f f f f f f f f f f f f f f f f 1",
    "do x = 1\nx",
    "seq 1\n2",
    "let x =\n1\n  2\n    3\n x",
    "\t\tlet x = 1\n\tx",
    "let x = 1\r\nx\r\n",
    "[| |]",
    "let f ?x : [Int] -> Int = x in f",
    "type F a = a -> F a in 1",
    "let f (x : Int) = x in f",
    "1 : Int : Int",
    "x.y.z.",
    ".",
    "..",
    "{ .. }",
    "{ x, .. y, z }",
];

fn check_infile<E: std::fmt::Display>(inf: &InFile<E>, problems: &mut Vec<String>, nspans: &mut usize) {
    let errs: &gluon::base::error::Errors<Spanned<E, BytePos>> = inf.errors();
    for e in errs.iter() {
        *nspans += 1;
        let s = e.span;
        let (a, b) = (s.start(), s.end());
        if a > b {
            problems.push(format!("span start {} > end {} ({})", a, b, first_line(&e.value.to_string())));
            continue;
        }
        match inf.source().get(a) {
            None => problems.push(format!(
                "span start {} lies in no source file ({})",
                a,
                first_line(&e.value.to_string())
            )),
            Some(fm) => {
                let fs = fm.span();
                if a < fs.start() || b > fs.end() {
                    problems.push(format!(
                        "span {}..{} outside its file {} ({}..{}) ({})",
                        a,
                        b,
                        fm.name(),
                        fs.start(),
                        fs.end(),
                        first_line(&e.value.to_string())
                    ));
                    continue;
                }
                let ra = (a.to_usize() - fs.start().to_usize()) as usize;
                let rb = (b.to_usize() - fs.start().to_usize()) as usize;
                let src = fm.source();
                if !src.is_char_boundary(ra) || !src.is_char_boundary(rb) {
                    problems.push(format!(
                        "span {}..{} (relative {}..{}) of file {} is not on character boundaries ({})",
                        a,
                        b,
                        ra,
                        rb,
                        fm.name(),
                        first_line(&e.value.to_string())
                    ));
                }
            }
        }
    }
}

fn first_line(s: &str) -> String {
    s.lines().next().unwrap_or("").chars().take(160).collect()
}

fn check_error(e: &gluon::Error, problems: &mut Vec<String>, nspans: &mut usize) {
    use gluon::Error as E;
    match e {
        E::Parse(inf) => check_infile(inf, problems, nspans),
        E::Typecheck(inf) => check_infile(inf, problems, nspans),
        E::Macro(inf) => check_infile(inf, problems, nspans),
        E::Multiple(es) => {
            for x in es.iter() {
                check_error(x, problems, nspans)
            }
        }
        _ => {}
    }
}

fn vm(ctx: &mut WorkerCtx) -> &RootedThread {
    if ctx.state.is_none() {
        ctx.state = Some(Box::new(gl::new_vm(Settings::default())));
    }
    ctx.state.as_ref().unwrap().downcast_ref::<RootedThread>().unwrap()
}

impl Property for C09 {
    fn id(&self) -> &'static str {
        "C09"
    }
    fn plan(&self, tier: Tier) -> Plan {
        Plan {
            random_cases: tier.pick(20_000, 1_000_000),
            tape_len: 400,
            watchdog_s: 30,
            worker_recycle: 1000,
            // "moderate nesting" is judged on an ordinary 8 MiB stack
            worker_stack: 8 << 20,
            ..Plan::default()
        }
    }
    fn fixed_cases(&self, _tier: Tier) -> Vec<Value> {
        let mut out = vec![];
        for h in HAND {
            for p in [true, false] {
                out.push(json!({"src": h, "prelude": p, "kind": "hand"}));
            }
        }
        for (_, src) in &textmut::corpus().files {
            out.push(json!({"src": textmut::clamp_bytes(src, MAX_BYTES), "prelude": true, "kind": "corpus"}));
        }
        out
    }
    fn gen(&self, t: &mut Tape, _tier: Tier) -> Value {
        let mode = t.pick(10);
        let prelude = t.chance(1, 3);
        let (src, kind) = match mode {
            0 => (textmut::random_utf8(t, 200), "random_bytes".to_string()),
            1 => (textmut::random_chars(t, 120), "random_chars".to_string()),
            2 | 3 => (textmut::soup(t, 60), "token_soup".to_string()),
            _ => {
                let win = if t.chance(1, 2) { 600 } else { MAX_BYTES };
                let base = textmut::corpus_window(t, win);
                let other = textmut::corpus_window(t, 400);
                let (s, kinds) = textmut::mutate(t, &base, 4, &other);
                (s, format!("mutant:{}", kinds.join("+")))
            }
        };
        json!({"src": textmut::clamp_bytes(&src, MAX_BYTES), "prelude": prelude, "kind": kind})
    }
    fn exec(&self, ctx: &mut WorkerCtx, case: &Value) -> Value {
        let src = case["src"].as_str().unwrap_or("");
        let prelude = case["prelude"].as_bool().unwrap_or(false);
        let vm = vm(ctx);
        vm.get_database_mut().set_implicit_prelude(prelude);
        let mut problems: Vec<String> = vec![];
        let mut nspans = 0usize;
        // stage 1: parser alone, with recovery
        let parse = match vm.parse_partial_expr(&TypeCache::new(), "c09", src) {
            Ok(_) => "ok".to_string(),
            Err(salvage) => {
                check_infile(&salvage.error, &mut problems, &mut nspans);
                match salvage.error.emit_string() {
                    Ok(s) if !s.trim().is_empty() => {}
                    Ok(_) => problems.push("parse errors render to an empty string".into()),
                    Err(e) => problems.push(format!("parse errors cannot be rendered: {}", e)),
                }
                if salvage.value.is_some() {
                    "err_salvaged".to_string()
                } else {
                    "err".to_string()
                }
            }
        };
        // stage 2: the whole front end
        let (tc, class) = match vm.typecheck_str("c09", src, None) {
            Ok(_) => ("ok".to_string(), String::new()),
            Err(e) => {
                check_error(&e, &mut problems, &mut nspans);
                match e.emit_string() {
                    Ok(s) if !s.trim().is_empty() => {}
                    Ok(_) => problems.push("errors render to an empty string".into()),
                    Err(er) => problems.push(format!("errors cannot be rendered: {}", er)),
                }
                ("err".to_string(), gl::classify(&e).0)
            }
        };
        json!({"parse": parse, "tc": tc, "class": class, "spans": nspans, "problems": problems})
    }
    fn judge(&self, case: &Value, obs: &Obs, kf: &KnownFindings) -> Judged {
        let mut j = Judged::pass();
        let src = case["src"].as_str().unwrap_or("");
        let kind = case["kind"].as_str().unwrap_or("");
        j.classes.push(format!("src:{}", kind.split(':').next().unwrap_or("")));
        // input features a known finding may be keyed on
        let mut feats = vec![kind.to_string()];
        if src.contains("derive(") {
            feats.push("derive_attribute".to_string());
        }
        if src.contains("[|") {
            feats.push("effect_row".to_string());
        }
        let show = || format!("input ({} bytes, implicit prelude {}):\n{}", src.len(), case["prelude"], src);
        match obs {
            Obs::TimedOut => {
                j.verdict = Verdict::Inconclusive("watchdog (30 s) hit".into());
            }
            Obs::Panicked { msg, loc } => {
                let text = format!("{} at {}", msg, loc);
                j.verdict = match kf.matches("C09", "panic", &text, &feats) {
                    Some(id) => Verdict::Known(id),
                    None => Verdict::Violation(format!("front end panicked: {}\n{}", text, show())),
                };
            }
            Obs::Died { status, tail } => {
                let text = format!("{} {}", status, tail);
                j.verdict = match kf.matches("C09", "died", &text, &feats) {
                    Some(id) => Verdict::Known(id),
                    None => Verdict::Violation(format!(
                        "front end killed the process ({})\n{}\n--- stderr tail ---\n{}",
                        status,
                        show(),
                        last_lines(tail, 5)
                    )),
                };
            }
            Obs::Ok(v) => {
                let probs = v["problems"].as_array().cloned().unwrap_or_default();
                if !probs.is_empty() {
                    let text = probs.iter().map(|p| p.as_str().unwrap_or("").to_string()).collect::<Vec<_>>().join("; ");
                    j.verdict = match kf.matches("C09", "bad_error", &text, &feats) {
                        Some(id) => Verdict::Known(id),
                        None => Verdict::Violation(format!("reported errors are not well formed: {}\n{}", text, show())),
                    };
                    return j;
                }
                let parse = v["parse"].as_str().unwrap_or("");
                let tc = v["tc"].as_str().unwrap_or("");
                j.classes.push(format!("parse:{}", parse));
                j.classes.push(format!("tc:{}{}", tc, if tc == "err" { format!(":{}", v["class"].as_str().unwrap_or("")) } else { String::new() }));
                let ntok = textmut::tokenize(src).iter().filter(|t| !t.trim().is_empty()).count();
                if parse == "err_salvaged" || (tc == "err" && parse == "ok") || (tc == "ok" && ntok >= 20) {
                    j.nontrivial.push(fnv(src.as_bytes()) ^ case["prelude"].as_bool().unwrap_or(false) as u64);
                }
            }
        }
        j
    }
    fn rule(&self) -> String {
        "inputs <= 4 KiB: random UTF-8, random characters, token soup over gluon's vocabulary with random indentation, and 1-4 token-level mutations (delete/duplicate/swap/replace/insert/truncate/re-indent/splice/wrap<=64/rename identifier/retype literal/self-apply/insert char) of windows of every .glu file in the repository; each run through parse_partial_expr and typecheck_str. Non-trivial = distinct inputs that produced errors with a salvaged AST, or passed the parser and failed later (macro/rename/typecheck recovery ran), or were accepted with >= 20 tokens".into()
    }
    fn assumptions(&self) -> Vec<String> {
        vec![
            "moderate nesting = up to 64 levels of generated bracket/lambda/record wrapping, judged on an 8 MiB stack in a dev-profile build (opt-level 1, debug assertions on)".into(),
            "a watchdog time-out (30 s for <= 4 KiB of input) is reported as inconclusive, not as a hang".into(),
            "spans are checked for parse, macro and typecheck errors (the error kinds that carry spans)".into(),
        ]
    }
    fn describe(&self, case: &Value, obs: &Obs) -> Value {
        json!({"kind": case["kind"], "prelude": case["prelude"], "src": case["src"], "obs": obs.to_json()})
    }
}

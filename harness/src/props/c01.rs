//! C01 — evaluation matches the strict reference semantics.
use gluon::RootedThread;
use serde_json::{json, Value};

use crate::engine::*;
use crate::gen::ast::Program;
use crate::gen::print::{print_program, Style};
use crate::gen::prog::{gen_program, GenCfg};
use crate::gl::{self, Outcome, Settings};
use crate::props::common::*;
use crate::tape::{fnv, Tape};

pub struct C01;

pub fn style_from(t: &mut Tape) -> Style {
    Style {
        explicit_in: t.chance(1, 3),
        redundant_parens: if t.chance(1, 4) { 2 + t.pick(4) as u8 } else { 0 },
        comments: if t.chance(1, 4) { 2 + t.pick(5) as u8 } else { 0 },
        crlf: t.chance(1, 8),
        blank_lines: if t.chance(1, 5) { 2 + t.pick(5) as u8 } else { 0 },
        annotate: true,
        block_comments: 0,
    }
}

const NONTRIVIAL: &[&str] = &[
    "closure_capture", "partial_application", "over_application", "tail_call", "rec_group", "record_ge5",
    "record_update", "nested_pattern", "literal_pattern", "as_pattern", "short_circuit", "failure",
    "upvalue_of_upvalue", "function_returning_function", "rec",
];

impl Property for C01 {
    fn id(&self) -> &'static str {
        "C01"
    }
    fn plan(&self, tier: Tier) -> Plan {
        Plan {
            random_cases: tier.pick(8000, 200_000),
            tape_len: tier.pick(300, 700),
            watchdog_s: 60,
            worker_recycle: 500,
            ..Plan::default()
        }
    }
    fn fixed_cases(&self, tier: Tier) -> Vec<Value> {
        // exhaustive core: every well-typed closed term of the reduced grammar up to n nodes,
        // with optimisation on and off
        let mut out = vec![];
        for (ty, body) in crate::gen::small::all_terms(tier.pick(6, 7)) {
            let prog = Program { decls: vec![], body, ty, uses_host: false, features: vec!["exhaustive_core".into()] };
            let src = print_program(&prog, Style::default(), "");
            for optimize in [true, false] {
                out.push(json!({"prog": prog, "src": src, "optimize": optimize}));
            }
        }
        out
    }
    fn exhaustive_note(&self, tier: Tier) -> Option<String> {
        Some(format!(
            "all well-typed closed terms with <= {} nodes of result type Int / Bool / (Int, Int) / {{ x : Int, y : Bool }} / Option Int over the reduced grammar (literals 0 1 True False None, variables, let at 7 types, lambda, application incl. partial and over-application through curried types, tuple / record construction and projection, Some, match on Option, if, #Int+, #Int<, error), each with optimisation on and off",
            tier.pick(6, 7)
        ))
    }
    fn gen(&self, t: &mut Tape, tier: Tier) -> Value {
        let style = style_from(t);
        let cfg = GenCfg {
            max_size: tier.pick(40, 90),
            hash_only: t.chance(1, 4),
            avoid: known().avoided("C01"),
            ..GenCfg::default()
        };
        let optimize = t.chance(1, 2);
        let prog = gen_program(t, cfg);
        let src = print_program(&prog, style, "");
        json!({"prog": prog, "src": src, "optimize": optimize})
    }
    fn exec(&self, ctx: &mut WorkerCtx, case: &Value) -> Value {
        if ctx.state.is_none() {
            ctx.state = Some(Box::new(gl::new_vm(Settings::default())));
        }
        let vm = ctx.state.as_ref().unwrap().downcast_ref::<RootedThread>().unwrap();
        {
            use gluon::ThreadExt;
            vm.get_database_mut().set_optimize(case["optimize"].as_bool().unwrap_or(true));
        }
        let _ = gl::take_host_log();
        let out = gl::run(vm, "c01", case["src"].as_str().unwrap());
        let log = gl::take_host_log();
        json!({"out": serde_json::to_value(&out).unwrap(), "log": log_to_json(&log)})
    }
    fn judge(&self, case: &Value, obs: &Obs, kf: &KnownFindings) -> Judged {
        let mut j = Judged::pass();
        let prog: Option<Program> = serde_json::from_value(case["prog"].clone()).ok();
        let src = case["src"].as_str().unwrap_or("");
        let mut feats: Vec<String> = prog.as_ref().map(|p| p.features.clone()).unwrap_or_default();
        if let Some(fs) = case["features"].as_array() {
            feats.extend(fs.iter().filter_map(|f| f.as_str().map(|s| s.to_string())));
        }
        let v = match obs {
            Obs::Ok(v) => v,
            Obs::TimedOut => {
                j.verdict = Verdict::Inconclusive("watchdog".into());
                return j;
            }
            other => {
                let (kind, text) = match other {
                    Obs::Panicked { msg, loc } => ("panic", format!("{} at {}", msg, loc)),
                    Obs::Died { status, tail } => ("died", format!("{} {}", status, tail)),
                    _ => ("", String::new()),
                };
                j.verdict = match kf.matches("C01", kind, &text, &feats) {
                    Some(id) => Verdict::Known(id),
                    None => Verdict::Violation(format!(
                        "evaluation killed or panicked the host: {}\nprogram:\n{}",
                        other.to_json(),
                        src
                    )),
                };
                return j;
            }
        };
        let prog = match prog {
            Some(p) => p,
            // hand-written regression input without a reference term: host survival, and the
            // expected rendering of the outcome when the file gives one
            None => {
                if let Some(exp) = case["expect"].as_str() {
                    let out: Outcome = serde_json::from_value(v["out"].clone()).unwrap();
                    let got = match &out {
                        Outcome::Value { val, .. } => val.show(),
                        Outcome::Fail { class, msg } => format!("fail[{}] {}", class, msg),
                        Outcome::BadShape { why, .. } => format!("badshape {}", why),
                    };
                    if got != exp {
                        j.verdict = Verdict::Violation(format!("expected {} but got {}\nprogram:\n{}", exp, got, src));
                    }
                    if let Some(l) = case.get("expect_log") {
                        if *l != v["log"] {
                            j.verdict = Verdict::Violation(format!("expected host calls {} but got {}\nprogram:\n{}", l, v["log"], src));
                        }
                    }
                }
                return j;
            }
        };
        let out: Outcome = serde_json::from_value(v["out"].clone()).unwrap();
        if let Some(e) = is_front_end_failure(&out) {
            // a generated program must be accepted: this is the generator's contract (checked under
            // C02/C03), here it only means the case says nothing about evaluation
            j.verdict = Verdict::Inconclusive(format!("generated program rejected by the front end: {}\n{}", e, src));
            j.classes.push("rejected_by_front_end".into());
            return j;
        }
        let (exp, log, _) = reference(&prog);
        match &exp {
            Expected::Fail(crate::gen::eval::Failure::Budget) => {
                j.classes.push("reference_budget_exceeded".into());
                return j;
            }
            Expected::Fail(crate::gen::eval::Failure::Stuck(m)) => {
                j.verdict = Verdict::Inconclusive(format!("reference interpreter stuck (generator bug): {}\n{}", m, src));
                return j;
            }
            _ => {}
        }
        let glog = log_from_json(&v["log"]);
        let optimize = case["optimize"].as_bool().unwrap_or(true);
        j.classes.push(format!("optimize:{}", optimize));
        if optimize && exp == Expected::Fail(crate::gen::eval::Failure::Overflow) {
            // the optimiser may skip built-in arithmetic whose result is unused (the one difference
            // C04 permits); nothing after that point is comparable with the reference
            if !matches!(&out, Outcome::Fail { class, msg } if class == "vm_message" && msg == "Arithmetic overflow") {
                j.classes.push("overflow_not_observed_under_optimisation".into());
                return j;
            }
        }
        match agree(&exp, &out) {
            Ok(class) => j.classes.push(format!("outcome:{}", class)),
            Err(why) => {
                // the checker (not the evaluator) reported an open row type for a record value:
                // reading the value by that type is meaningless (KF-C02-01, listed here as KF-C01-04)
                let mut fs = feats.clone();
                if open_row_result_symptom(&out) {
                    fs.push("open_row_in_result_record_type".into());
                }
                j.verdict = match kf.matches("C01", "not_equal", &why, &fs) {
                    Some(id) => Verdict::Known(id),
                    None => Verdict::Violation(format!("{}\nprogram:\n{}", why, src)),
                };
                return j;
            }
        }
        if glog != log {
            j.verdict = Verdict::Violation(format!(
                "host calls differ: reference {:?}, gluon {:?}\nprogram:\n{}",
                log, glog, src
            ));
            return j;
        }
        for f in &prog.features {
            j.classes.push(format!("f:{}", f));
        }
        let n = prog.features.iter().filter(|f| NONTRIVIAL.contains(&f.as_str())).count();
        if n >= 2 {
            j.nontrivial.push(fnv(serde_json::to_string(&prog.body).unwrap().as_bytes()));
        }
        j
    }
    fn rule(&self) -> String {
        format!("type-directed generated programs (size <= 40 quick / 90 thorough) printed in a random legal style; non-trivial = program exercising >= 2 of {:?}, distinct by hash of the term", NONTRIVIAL)
    }
    fn assumptions(&self) -> Vec<String> {
        vec![
            "the reference interpreter is the oracle: strict, call-by-value, left-to-right, first-match patterns, checked Int/Byte arithmetic, IEEE floats, documented record-update layout".into(),
            "evaluation order among the initialisers of one record-update expression is not specified by the book: at most one of them may fail or call the host (DESIGN 5.3)".into(),
            "programs rejected by the front end are counted as inconclusive here (generator contract, judged by C02/C03)".into(),
        ]
    }
    fn describe(&self, case: &Value, obs: &Obs) -> Value {
        json!({"src": case["src"], "obs": obs.to_json()})
    }
}

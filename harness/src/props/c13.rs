//! C13 — heaps are isolated: values crossing threads are complete independent copies.
use std::sync::atomic::Ordering;

use gluon::vm::verif;
use gluon::{RootedThread, ThreadExt};
use serde_json::{json, Value};

use crate::engine::*;
use crate::gen::ast::*;
use crate::gen::print::print_program;
use crate::gen::prog::{gen_program, GenCfg};
use crate::gl::{self, Settings, Val};
use crate::props::c01::style_from;
use crate::props::common::same_val;
use crate::tape::{fnv, Tape};

pub struct C13;

const ROUTES: &[(&str, &str, &str)] = &[
    ("sibling", "A", "B"),
    ("cousin", "A1", "B"),
    ("unrelated_vm", "A", "U"),
    ("child_to_parent", "A1", "A"),
    ("parent_to_child", "A", "A1"),
    ("root_to_descendant", "R", "A1"),
    ("descendant_to_root", "A1", "R"),
    ("unrelated_vm_to_child", "U", "A1"),
];

const ACTIONS: &[&str] = &["collect_source", "collect_dest", "collect_root", "churn_source", "drop_source_handle", "drop_source_thread", "churn_dest"];

/// every string literal becomes a string built at run time, so that it lives in the evaluating
/// thread's heap rather than in the function's constants
fn heapify(t: &mut Tm) {
    fn go(t: &mut Tm) {
        if let Tm::Lit(Lit::Str(s)) = t {
            let cs: Vec<char> = s.chars().collect();
            let mid = cs.len() / 2;
            let (a, b): (String, String) = (cs[..mid].iter().collect(), cs[mid..].iter().collect());
            *t = Tm::App(
                Box::new(Tm::Var("heap_str".into())),
                vec![Tm::Lit(Lit::Str(a)), Tm::Lit(Lit::Str(b))],
            );
            return;
        }
        match t {
            Tm::Lam(_, b) => go(b),
            Tm::App(a, bs) => {
                go(a);
                bs.iter_mut().for_each(go)
            }
            Tm::Let(b, body) => {
                go(&mut b.body);
                go(body)
            }
            Tm::LetRec(bs, body) => {
                bs.iter_mut().for_each(|b| go(&mut b.body));
                go(body)
            }
            Tm::LetPat(_, a, b) => {
                go(a);
                go(b)
            }
            Tm::If(a, b, c) => {
                go(a);
                go(b);
                go(c)
            }
            // operands of string comparisons stay literals or calls, both fine
            Tm::Prim(_, _, _, a, b) | Tm::And(a, b) | Tm::Or(a, b) => {
                go(a);
                go(b)
            }
            Tm::Tuple(xs) | Tm::Array(xs) | Tm::Con(_, xs) => xs.iter_mut().for_each(go),
            Tm::Record(fs) => fs.iter_mut().for_each(|(_, x)| go(x)),
            Tm::Proj(a, _) | Tm::Host(_, a) | Tm::Ann(a, _) => go(a),
            Tm::Update(fs, b) => {
                fs.iter_mut().for_each(|(_, x)| go(x));
                go(b)
            }
            Tm::Match(s, arms) => {
                go(s);
                arms.iter_mut().for_each(|(_, x)| go(x))
            }
            _ => {}
        }
    }
    go(t)
}

struct Vms {
    root: RootedThread,
    other: RootedThread,
}

const CHURN: &str = "let heap_str = (import! std.string.prim).append\nrec let go n acc = if n #Int< 1 then acc else go (n #Int- 1) [heap_str \"ga\" \"rbage\", heap_str \"x\" \"y\"]\nin\ngo 60 []";

fn problems_of(t: &gluon::Thread, label: &str, out: &mut Vec<String>) {
    let rep = t.verif_walk();
    let owners = t.verif_heap_owners();
    if !rep.freed.is_empty() {
        out.push(format!("{}: {} reachable object(s) had already been swept", label, rep.freed.len()));
    }
    let foreign = rep.objects.iter().filter(|(_, o)| !owners.contains(o)).count();
    if foreign > 0 {
        if std::env::var_os("GVERIF_DEBUG").is_some() {
            let fs: Vec<_> = rep.objects.iter().zip(rep.types.iter()).filter(|((_, o), _)| !owners.contains(o)).collect();
            eprintln!("[c13] {} owners {:?} foreign {:?} reached {}", label, owners, fs, rep.reached);
        }
        out.push(format!("{}: {} reachable object(s) live in a heap that is neither the thread's nor an ancestor's", label, foreign));
    }
}

impl Property for C13 {
    fn id(&self) -> &'static str {
        "C13"
    }
    fn plan(&self, tier: Tier) -> Plan {
        Plan {
            random_cases: tier.pick(8000, 200_000),
            tape_len: tier.pick(360, 700),
            watchdog_s: 90,
            worker_recycle: 200,
            ..Plan::default()
        }
    }
    fn gen(&self, t: &mut Tape, tier: Tier) -> Value {
        let route = t.pick(ROUTES.len());
        let n_actions = 1 + t.pick(6);
        let actions: Vec<&str> = (0..n_actions).map(|_| ACTIONS[t.pick(ACTIONS.len())]).collect();
        let cfg = GenCfg {
            max_size: tier.pick(40, 80),
            hash_only: t.chance(1, 2),
            allow_fun_result: t.chance(1, 2),
            allow_fail: false,
            allow_host: false,
            avoid: known().avoided("C13"),
            ..GenCfg::default()
        };
        let mut prog = gen_program(t, cfg);
        heapify(&mut prog.body);
        let src = print_program(&prog, style_from(t), "let heap_str = (import! std.string.prim).append\n");
        let heap_strings = src.matches("heap_str \"").count();
        // a quarter of the values are module level in the source VM (they live in the heap of its
        // global state, which the destination of an unrelated VM must not point into either)
        let module_level = t.chance(1, 4);
        json!({"src": src, "module_level": module_level, "route": ROUTES[route].0, "from": ROUTES[route].1, "to": ROUTES[route].2, "actions": actions,
               "features": prog.features, "heap_strings": heap_strings, "ty": crate::gen::print::print_ty(&prog.ty, &prog.decls)})
    }
    fn exec(&self, ctx: &mut WorkerCtx, case: &Value) -> Value {
        if ctx.state.is_none() {
            let root = gl::new_vm(Settings::default());
            let other = gl::new_vm(Settings::default());
            let _ = gl::run(&root, "warm", "let s = import! std.string.prim\n1 + 2");
            let _ = gl::run(&other, "warm", "let s = import! std.string.prim\n1 + 2");
            ctx.state = Some(Box::new(Vms { root, other }));
        }
        let vms = ctx.state.as_ref().unwrap().downcast_ref::<Vms>().unwrap();
        verif::QUARANTINE.store(true, Ordering::Relaxed);
        let a = vms.root.new_thread().expect("A");
        let b = vms.root.new_thread().expect("B");
        let a1 = a.new_thread().expect("A1");
        let pick = |name: &str| -> RootedThread {
            match name {
                "A" => a.clone(),
                "B" => b.clone(),
                "A1" => a1.clone(),
                "U" => vms.other.clone(),
                _ => vms.root.clone(),
            }
        };
        if std::env::var_os("GVERIF_DEBUG").is_some() {
            eprintln!("[c13] owners root {:?} A {:?} B {:?} A1 {:?} U {:?}", vms.root.verif_heap_owners(), a.verif_heap_owners(), b.verif_heap_owners(), a1.verif_heap_owners(), vms.other.verif_heap_owners());
        }
        let (from, to) = (case["from"].as_str().unwrap_or("A"), case["to"].as_str().unwrap_or("B"));
        let mut source: Option<RootedThread> = Some(pick(from));
        let dest = pick(to);
        let src = case["src"].as_str().unwrap();
        let module_level = case["module_level"] == true;
        let r = if module_level {
            let name = format!("c13m{}x{}", std::process::id(), ctx.cases_done);
            match source.as_ref().unwrap().load_script(&name, src) {
                Ok(()) => source.as_ref().unwrap().run_expr::<gl::Opaque>("c13", &format!("import! {}", name)),
                Err(e) => Err(e),
            }
        } else {
            source.as_ref().unwrap().run_expr::<gl::Opaque>("c13", src)
        };
        let (v, ty) = match r {
            Ok((v, ty)) => (v.into_inner(), ty),
            Err(e) => {
                verif::QUARANTINE.store(false, Ordering::Relaxed);
                return json!({"rejected": format!("[{}] {}", gl::classify(&e).0, e)});
            }
        };
        let sent = gl::read_value(source.as_ref().unwrap(), v.get_variant(), &ty);
        let moved = match v.re_root(dest.clone()) {
            Ok(m) => m,
            Err(e) => {
                verif::QUARANTINE.store(false, Ordering::Relaxed);
                return json!({"transfer_error": e.to_string(), "sent": format!("{:?}", sent)});
            }
        };
        let mut handle = Some(v);
        let mut reads: Vec<Value> = vec![];
        let mut problems: Vec<String> = vec![];
        let read = |label: &str, reads: &mut Vec<Value>, problems: &mut Vec<String>| {
            let got = gl::read_value(&dest, moved.get_variant(), &ty);
            reads.push(json!([label, serde_json::to_value(&got).unwrap()]));
            problems_of(&dest, &format!("destination after {}", label), problems);
        };
        read("transfer", &mut reads, &mut problems);
        // drop our own extra handles so that "drop the source thread" really drops it when allowed
        let source_is_ancestor_of_dest = matches!((from, to), ("A", "A1") | ("R", _)) || from == "U";
        for act in case["actions"].as_array().cloned().unwrap_or_default() {
            let act = act.as_str().unwrap_or("");
            match act {
                "collect_source" => {
                    if let Some(s) = &source {
                        s.collect()
                    }
                }
                "collect_dest" => dest.collect(),
                "collect_root" => vms.root.collect(),
                "churn_source" => {
                    if let Some(s) = &source {
                        let _ = gl::run(s, "churn", CHURN);
                        s.collect();
                    }
                }
                "churn_dest" => {
                    let _ = gl::run(&dest, "churn", CHURN);
                    dest.collect();
                }
                "drop_source_handle" => {
                    handle = None;
                    if let Some(s) = &source {
                        s.collect()
                    }
                }
                "drop_source_thread" => {
                    if !source_is_ancestor_of_dest && from != "R" {
                        handle = None;
                        source = None;
                        vms.root.collect();
                    }
                }
                _ => {}
            }
            read(act, &mut reads, &mut problems);
        }
        drop(handle);
        verif::QUARANTINE.store(false, Ordering::Relaxed);
        json!({"sent": serde_json::to_value(&sent).unwrap(), "reads": reads, "problems": problems})
    }
    fn judge(&self, case: &Value, obs: &Obs, kf: &KnownFindings) -> Judged {
        let mut j = Judged::pass();
        let route = case["route"].as_str().unwrap_or("");
        let src = case["src"].as_str().unwrap_or("");
        let mut feats = vec![format!("route:{}", route)];
        if src.contains("[heap_str") || src.contains(", heap_str") {
            feats.push("array_of_heap_strings".into());
        }
        let to_unrelated = route == "unrelated_vm" || route == "unrelated_vm_to_child";
        if to_unrelated && case["ty"].as_str().unwrap_or("").contains("->") {
            feats.push("function_value_between_unrelated_vms".into());
        }
        let show = || format!("route {} ({} -> {}), then {}\nprogram evaluated in the source thread:\n{}", route, case["from"], case["to"], case["actions"], src);
        j.classes.push(format!("route:{}", route));
        let v = match obs {
            Obs::Ok(v) => v,
            Obs::TimedOut => {
                j.verdict = Verdict::Inconclusive("watchdog".into());
                return j;
            }
            other => {
                let (kd, text) = match other {
                    Obs::Panicked { msg, loc } => ("panic", format!("{} at {}", msg, loc)),
                    Obs::Died { status, tail } => ("died", format!("{} {}", status, tail)),
                    _ => ("", String::new()),
                };
                j.verdict = match kf.matches("C13", kd, &text, &feats) {
                    Some(id) => Verdict::Known(id),
                    None => Verdict::Violation(format!("moving a value between threads crashed the host: {}\n{}", other.to_json(), show())),
                };
                return j;
            }
        };
        if v.get("rejected").is_some() {
            j.classes.push("rejected_by_front_end".into());
            j.verdict = Verdict::Inconclusive(format!("generated program rejected: {}", v["rejected"]));
            return j;
        }
        if let Some(e) = v.get("transfer_error") {
            j.verdict = Verdict::Violation(format!("the transfer was refused: {}\n{}", e, show()));
            return j;
        }
        if let Some(ps) = v["problems"].as_array() {
            if !ps.is_empty() {
                let text = ps.iter().map(|p| p.as_str().unwrap_or("").to_string()).collect::<Vec<_>>().join("; ");
                j.verdict = match kf.matches("C13", "heap_invariant", &text, &feats) {
                    Some(id) => Verdict::Known(id),
                    None => Verdict::Violation(format!("heap walk: {}\n{}", text, show())),
                };
                return j;
            }
        }
        let sent: Result<Val, String> = serde_json::from_value(v["sent"].clone()).unwrap_or(Err("?".into()));
        let sent = match sent {
            Ok(s) => s,
            Err(e) => {
                j.verdict = Verdict::Inconclusive(format!("value in the source thread does not read as its type: {}", e));
                return j;
            }
        };
        for r in v["reads"].as_array().cloned().unwrap_or_default() {
            let got: Result<Val, String> = serde_json::from_value(r[1].clone()).unwrap_or(Err("?".into()));
            let ok = matches!(&got, Ok(g) if same_val(g, &sent));
            if !ok {
                let text = format!("after {}: sent {} , destination holds {:?}", r[0], sent.show(), got.as_ref().map(|g| g.show()));
                j.verdict = match kf.matches("C13", "not_equal", &text, &feats) {
                    Some(id) => Verdict::Known(id),
                    None => Verdict::Violation(format!("the transferred value is not an intact copy: {}\n{}", text, show())),
                };
                return j;
            }
        }
        j.evals = v["reads"].as_array().map(|a| a.len() as u64).unwrap_or(1);
        let heap_objects = case["heap_strings"].as_u64().unwrap_or(0) > 0
            || case["features"].as_array().map(|a| a.iter().any(|f| ["record", "array", "tuple", "user_variant", "closure_capture"].contains(&f.as_str().unwrap_or("")))).unwrap_or(false);
        let crossing = !matches!(route, "parent_to_child" | "root_to_descendant");
        if heap_objects && crossing {
            j.nontrivial.push(fnv(src.as_bytes()) ^ fnv(route.as_bytes()));
        }
        j
    }
    fn rule(&self) -> String {
        "a generated value (records, variants, tuples, arrays of every element kind incl. run-time built strings, closures, partial applications) is evaluated in a source thread of a tree root -> {A -> A1, B} or in an unrelated VM and moved with RootedValue::re_root along one of 8 routes (sibling, cousin, unrelated VM, child->parent, parent->child, root->descendant, descendant->root, unrelated VM->child); then 1-6 actions from {collect source/dest/root, churn source/dest, drop source handle, drop source thread}; after the transfer and after every action the destination's copy must read equal to what was sent, and a walk from the destination's roots must reach no swept (quarantined) object and no object of a heap other than its own, an ancestor's or the global one. Non-trivial = value with heap objects allocated in the source and a route between heaps that may not share; distinct by (source, route)".into()
    }
    fn assumptions(&self) -> Vec<String> {
        vec![
            "hooks H2 (quarantine) and H3 (owner ids, walk)".into(),
            "sharing/cycle preservation inside the copy is not compared (the public value API exposes no object identity); channel and spawn routes are exercised by C17".into(),
        ]
    }
    fn describe(&self, case: &Value, obs: &Obs) -> Value {
        json!({"route": case["route"], "actions": case["actions"], "src": case["src"], "obs": obs.to_json()})
    }
}

//! C14 — parallel execution is safe and equivalent to running alone.
//!
//! Randomised stress (this is not schedule exploration): T OS threads, each on its own child
//! `Thread` of one VM, run generated programs whose import sets overlap (modules not loaded yet,
//! bodies tick a host counter) and generated allocation-heavy programs, under GC stress, while a
//! collector thread keeps collecting the root (which locks every child's context).  Oracles:
//! each result equals the result of the same program run alone on a fresh VM; no module body
//! runs twice; the process survives; the round terminates (CPU-idle stall = deadlock).
use std::collections::BTreeMap;
use std::sync::atomic::{AtomicBool, Ordering};
use std::sync::{Arc, Barrier};

use gluon::query::CompilationBase;
use gluon::vm::verif;
use gluon::ThreadExt;
use serde_json::{json, Value};

use crate::engine::*;
use crate::gen::print::print_program;
use crate::gen::prog::{gen_program, GenCfg};
use crate::gl::{self, Outcome, Settings};
use crate::props::c15::{source, Broken, Kind, Spec, Use};
use crate::props::common::*;
use crate::tape::{fnv, Tape};

pub struct C14;

const NO_PRELUDE_HEADER: &str = "let { Bool, Option } = import! std.types\nlet { error } = import! std.prim\n";

fn import_program(mods: &[usize]) -> String {
    let mut o = String::new();
    let mut seen = std::collections::BTreeSet::new();
    for m in mods {
        if seen.insert(*m) {
            o.push_str(&format!("let m{m} = import! m{m}\n", m = m));
        }
    }
    let fields: Vec<String> = seen.iter().map(|m| format!("b{m} = m{m}.b, s{m} = m{m}.s, f{m} = m{m}.f 1", m = m)).collect();
    o.push_str(&format!("{{ {} }}\n", fields.join(", ")));
    o
}

fn cpu_ticks() -> u64 {
    let s = std::fs::read_to_string("/proc/self/stat").unwrap_or_default();
    let rest = s.rsplit(')').next().unwrap_or("");
    let f: Vec<&str> = rest.split_whitespace().collect();
    f.get(11).and_then(|x| x.parse::<u64>().ok()).unwrap_or(0) + f.get(12).and_then(|x| x.parse::<u64>().ok()).unwrap_or(0)
}

impl Property for C14 {
    fn id(&self) -> &'static str {
        "C14"
    }
    fn plan(&self, tier: Tier) -> Plan {
        Plan {
            random_cases: tier.pick(3000, 60_000),
            tape_len: tier.pick(600, 900),
            watchdog_s: 180,
            // every worker runs up to 16 OS threads itself
            shards: 4,
            worker_recycle: 40,
            ..Plan::default()
        }
    }
    fn gen(&self, t: &mut Tape, tier: Tier) -> Value {
        let nthreads = *t.choose(if tier == Tier::Quick { &[2usize, 4, 8][..] } else { &[2usize, 4, 8, 16][..] });
        let stress = *t.choose(&[0u64, 1, 2, 5, 13]);
        let collector = t.chance(2, 3);
        let nmods = 3 + t.pick(4);
        let mut modules = vec![];
        for i in 0..nmods {
            let mut uses = vec![];
            for _ in 0..t.pick(3) {
                if i > 0 {
                    uses.push((t.pick(i), *t.choose(&[Use::B, Use::F, Use::S])));
                }
            }
            let spec = Spec { id: i, k: 100 * (i as i64 + 1), kind: Kind::Int, uses, broken: Broken::No };
            modules.push(source(&spec));
        }
        let mut programs = vec![];
        for _ in 0..nthreads {
            let n = 3 + t.pick(tier.pick(4, 8));
            let mut list = vec![];
            for _ in 0..n {
                if t.chance(2, 3) {
                    let k = 1 + t.pick(3);
                    let mods: Vec<usize> = (0..k).map(|_| t.pick(nmods)).collect();
                    list.push(json!({"kind": "imports", "src": import_program(&mods)}));
                } else {
                    let cfg = GenCfg { max_size: 50, hash_only: true, allow_host: false, ..GenCfg::default() };
                    let prog = gen_program(t, cfg);
                    list.push(json!({"kind": "gen", "src": print_program(&prog, Default::default(), NO_PRELUDE_HEADER)}));
                }
            }
            programs.push(list);
        }
        // in half of the rounds every thread starts with the same program over field names and
        // strings that this VM has never seen: all threads compile it at the same moment, so
        // anything keyed on "the first time a name is seen" (interning of field names and string
        // literals, symbol tables) is entered concurrently for the same keys
        if t.chance(1, 2) {
            let nf = 6 + t.pick(10);
            let tag = t.pick(1000);
            let mut src = String::from(NO_PRELUDE_HEADER);
            let mut sum = String::from("0");
            for k in 0..nf {
                src.push_str(&format!("let get{k} r = r.fresh_{tag}_{k}\n", k = k, tag = tag));
                sum = format!("{} #Int+ get{k} {{ fresh_{tag}_{k} = {v}, pad_{tag}_{k} = \"s{k}\" }}", sum, k = k, tag = tag, v = k + 1);
            }
            src.push_str(&sum);
            src.push('\n');
            for list in programs.iter_mut() {
                list.insert(0, json!({"kind": "fresh_names", "src": src}));
            }
        }
        // a third of the rounds: every thread runs its expressions under one and the same name
        // (an embedder calling `run_expr("<top>", ..)` from all its threads)
        let same_name = t.chance(1, 3);
        json!({"nthreads": nthreads, "modules": modules, "programs": programs, "stress": stress, "collector": collector, "same_name": same_name})
    }
    fn exec(&self, _ctx: &mut WorkerCtx, case: &Value) -> Value {
        let modules: Vec<String> = serde_json::from_value(case["modules"].clone()).unwrap();
        let programs: Vec<Vec<Value>> = serde_json::from_value(case["programs"].clone()).unwrap();
        let settings = Settings { prelude: false, ..Settings::default() };
        // every thread evaluates its expressions under one and the same module name
        let same_name = case["same_name"] == true;
        let make_vm = || {
            let vm = gl::new_vm(settings);
            {
                let mut db = vm.get_database_mut();
                for (i, src) in modules.iter().enumerate() {
                    db.add_module(format!("m{}", i), src);
                }
            }
            vm
        };
        // ---- alone
        verif::GC_STRESS.store(0, Ordering::Relaxed);
        let _ = gl::take_host_log();
        let solo_vm = make_vm();
        let mut solo: Vec<Vec<Outcome>> = vec![];
        for (ti, list) in programs.iter().enumerate() {
            let th = solo_vm.new_thread().expect("thread");
            let mut outs = vec![];
            for (pi, p) in list.iter().enumerate() {
                let name = if same_name { "prog".to_string() } else { format!("t{}p{}", ti, pi) };
                outs.push(gl::run(&th, &name, p["src"].as_str().unwrap()));
            }
            solo.push(outs);
        }
        drop(solo_vm);
        let _ = gl::take_host_log();
        // ---- together
        let vm = make_vm();
        let n = programs.len();
        let barrier = Arc::new(Barrier::new(n + 1));
        let done = Arc::new(AtomicBool::new(false));
        let (tx, rx) = std::sync::mpsc::channel::<(usize, Vec<Outcome>)>();
        verif::reset_counters();
        verif::QUARANTINE.store(true, Ordering::Relaxed);
        verif::GC_STRESS.store(case["stress"].as_u64().unwrap_or(0), Ordering::Relaxed);
        let mut handles = vec![];
        for (ti, list) in programs.iter().enumerate() {
            let th = vm.new_thread().expect("thread");
            let list = list.clone();
            let barrier = barrier.clone();
            let tx = tx.clone();
            handles.push(
                std::thread::Builder::new()
                    .stack_size(64 << 20)
                    .spawn(move || {
                        barrier.wait();
                        let mut outs = vec![];
                        for (pi, p) in list.iter().enumerate() {
                            let name = if same_name { "prog".to_string() } else { format!("t{}p{}", ti, pi) };
                            outs.push(gl::run(&th, &name, p["src"].as_str().unwrap()));
                        }
                        let _ = tx.send((ti, outs));
                    })
                    .unwrap(),
            );
        }
        drop(tx);
        let collector = if case["collector"] == true {
            let vm2 = vm.clone();
            let done2 = done.clone();
            Some(std::thread::spawn(move || {
                let mut n = 0u64;
                while !done2.load(Ordering::Relaxed) {
                    vm2.collect();
                    n += 1;
                    std::thread::yield_now();
                }
                n
            }))
        } else {
            None
        };
        barrier.wait();
        let mut results: BTreeMap<usize, Vec<Outcome>> = BTreeMap::new();
        let mut idle = 0;
        let mut last_cpu = cpu_ticks();
        let mut hang = false;
        while results.len() < n {
            match rx.recv_timeout(std::time::Duration::from_secs(1)) {
                Ok((ti, outs)) => {
                    results.insert(ti, outs);
                }
                Err(std::sync::mpsc::RecvTimeoutError::Timeout) => {
                    let c = cpu_ticks();
                    // the collector thread spins, so stop it before judging idleness
                    if c == last_cpu {
                        idle += 1;
                    } else {
                        idle = 0;
                    }
                    last_cpu = c;
                    if idle >= 3 {
                        hang = true;
                        break;
                    }
                }
                Err(_) => break,
            }
        }
        done.store(true, Ordering::Relaxed);
        verif::GC_STRESS.store(0, Ordering::Relaxed);
        if hang {
            return json!({"hang": true, "finished_threads": results.len(), "__recycle": true});
        }
        let collections_by_collector = collector.map(|c| c.join().unwrap_or(0)).unwrap_or(0);
        for h in handles {
            let _ = h.join();
        }
        verif::QUARANTINE.store(false, Ordering::Relaxed);
        let log = gl::take_host_log();
        let collections = verif::COLLECTIONS.load(Ordering::Relaxed);
        let mut ticks: BTreeMap<i64, u32> = BTreeMap::new();
        for (c, id) in &log {
            if *c == 't' {
                *ticks.entry(*id).or_insert(0) += 1;
            }
        }
        let together: Vec<Vec<Outcome>> = (0..n).map(|i| results.remove(&i).unwrap_or_default()).collect();
        json!({
            "solo": solo, "together": together,
            "ticks": ticks.iter().map(|(k, v)| json!([k, v])).collect::<Vec<_>>(),
            "collections": collections, "collector_rounds": collections_by_collector,
        })
    }
    fn judge(&self, case: &Value, obs: &Obs, kf: &KnownFindings) -> Judged {
        let mut j = Judged::pass();
        let show_case = || -> String {
            let mut s = format!("threads {} stress {} collector {}\n", case["nthreads"], case["stress"], case["collector"]);
            for (i, m) in case["modules"].as_array().cloned().unwrap_or_default().iter().enumerate() {
                s.push_str(&format!("module m{}:\n{}\n", i, m.as_str().unwrap_or("")));
            }
            s
        };
        let v = match obs {
            Obs::Ok(v) => v,
            Obs::TimedOut => {
                j.verdict = Verdict::Inconclusive("watchdog (worker still consuming CPU)".into());
                return j;
            }
            other => {
                let (k, text) = match other {
                    Obs::Panicked { msg, loc } => ("panic", format!("{} at {}", msg, loc)),
                    Obs::Died { status, tail } => ("died", format!("{} {}", status, tail)),
                    _ => ("", String::new()),
                };
                j.verdict = match kf.matches("C14", k, &text, &[]) {
                    Some(id) => Verdict::Known(id),
                    None => Verdict::Violation(format!("a parallel round killed or panicked the host: {}\n{}", other.to_json(), show_case())),
                };
                return j;
            }
        };
        if v["hang"] == true {
            j.verdict = match kf.matches("C14", "hang", "", &[]) {
                Some(id) => Verdict::Known(id),
                None => Verdict::Violation(format!(
                    "deadlock: the round did not finish ({} of {} threads done) and the process consumed no CPU for 3 s\n{}",
                    v["finished_threads"], case["nthreads"], show_case()
                )),
            };
            return j;
        }
        let solo: Vec<Vec<Outcome>> = serde_json::from_value(v["solo"].clone()).unwrap_or_default();
        let together: Vec<Vec<Outcome>> = serde_json::from_value(v["together"].clone()).unwrap_or_default();
        let mut evals = 0;
        for (ti, (a, b)) in solo.iter().zip(&together).enumerate() {
            if a.len() != b.len() {
                j.verdict = Verdict::Violation(format!("thread {} produced {} results instead of {}\n{}", ti, b.len(), a.len(), show_case()));
                return j;
            }
            for (pi, (x, y)) in a.iter().zip(b).enumerate() {
                evals += 2;
                if is_front_end_failure(x).is_some() {
                    j.classes.push("program_rejected_alone".into());
                    if is_front_end_failure(y).is_none() {
                        j.verdict = Verdict::Violation(format!(
                            "thread {} program {} is rejected alone but not in parallel: {}\n{}",
                            ti, pi, show_outcome(y), show_case()
                        ));
                        return j;
                    }
                    continue;
                }
                let same = match (x, y) {
                    (Outcome::Value { val: v1, ty: t1 }, Outcome::Value { val: v2, ty: t2 }) => same_val(v1, v2) && t1 == t2,
                    (p, q) => p == q,
                };
                if !same {
                    j.verdict = Verdict::Violation(format!(
                        "thread {} program {} differs from running alone\n alone:    {}\n parallel: {}\nprogram:\n{}\n{}",
                        ti,
                        pi,
                        show_outcome(x),
                        show_outcome(y),
                        case["programs"][ti][pi]["src"].as_str().unwrap_or(""),
                        show_case()
                    ));
                    return j;
                }
            }
        }
        for t in v["ticks"].as_array().cloned().unwrap_or_default() {
            if t[1].as_u64().unwrap_or(0) > 1 {
                j.verdict = Verdict::Violation(format!(
                    "the body of module m{} was evaluated {} times in one VM\n{}",
                    t[0], t[1], show_case()
                ));
                return j;
            }
        }
        j.evals = evals;
        j.classes.push(format!("threads:{}", case["nthreads"]));
        j.classes.push(format!("stress:{}", case["stress"]));
        if case["same_name"] == true {
            j.classes.push("same_expression_name_on_all_threads".into());
        }
        if case["programs"].as_array().map(|ps| ps.iter().any(|l| l.as_array().map(|l| l.iter().any(|p| p["kind"] == "fresh_names")).unwrap_or(false))).unwrap_or(false) {
            j.classes.push("fresh_names_compiled_simultaneously".into());
        }
        // overlapping imports of modules nobody has loaded yet, or collections during the round
        let mut importers: BTreeMap<String, usize> = BTreeMap::new();
        for list in case["programs"].as_array().cloned().unwrap_or_default() {
            let mut mine = std::collections::BTreeSet::new();
            for p in list.as_array().cloned().unwrap_or_default() {
                if p["kind"] == "imports" {
                    for l in p["src"].as_str().unwrap_or("").lines() {
                        if let Some(m) = l.strip_prefix("let m") {
                            mine.insert(m.split(' ').next().unwrap_or("").to_string());
                        }
                    }
                }
            }
            for m in mine {
                *importers.entry(m).or_insert(0) += 1;
            }
        }
        let shared = importers.values().any(|n| *n >= 2);
        let collected = v["collections"].as_u64().unwrap_or(0) > 0;
        if shared {
            j.classes.push("module_imported_by_two_threads".into());
        }
        if collected {
            j.classes.push("collections_during_round".into());
        }
        if shared || collected {
            j.nontrivial.push(fnv(serde_json::to_string(case).unwrap().as_bytes()));
        }
        j
    }
    fn rule(&self) -> String {
        "rounds of 2/4/8 (thorough: 16) OS threads, each with its own child Thread of one VM and 3-7 (thorough -11) programs: records built from 1-3 imports out of a pool of 3-6 generated, not yet loaded modules (bodies tick a host counter, depend on lower modules) and generated allocation-heavy programs; GC stress period from {0,1,2,5,13} with quarantine of swept blocks; in 2/3 of the rounds a collector thread keeps collecting the root VM. Per program: outcome (value, type, failure) equals the outcome of the same program run alone on a fresh VM; per round: no module body ticks twice, the process survives, and the round finishes (no answer + no CPU time for 3 s = deadlock). Non-trivial = a module imported by two threads of the round or collections during the round; distinct by round hash".into()
    }
    fn assumptions(&self) -> Vec<String> {
        vec![
            "randomised stress, not schedule exploration: interleavings are whatever the OS scheduler produces under GC stress and a spinning collector".into(),
            "the default executor (imports run inline under block_on); the tokio VM is not exercised".into(),
            "host tick log is process-global; the alone phase and the parallel phase use separate VMs run one after the other".into(),
        ]
    }
    fn describe(&self, case: &Value, obs: &Obs) -> Value {
        let mut o = obs.to_json();
        if let Some(ok) = o.get_mut("ok").and_then(|x| x.as_object_mut()) {
            ok.remove("solo");
            ok.remove("together");
        }
        json!({"nthreads": case["nthreads"], "stress": case["stress"], "collector": case["collector"], "first_module": case["modules"][0], "first_program": case["programs"][0][0], "obs": o})
    }
}

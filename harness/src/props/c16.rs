//! C16 — compilation and evaluation are deterministic.
use gluon::ThreadExt;
use serde_json::{json, Value};

use crate::engine::*;
use crate::gen::mutate::mutate;
use crate::gen::print::print_program;
use crate::gen::prog::{gen_program, GenCfg};
use crate::gl::{self, Outcome, Settings};
use crate::props::c01::style_from;
use crate::tape::{fnv, Tape};

pub struct C16;

const NO_PRELUDE_HEADER: &str = "let { Bool, Option } = import! std.types\nlet { error } = import! std.prim\n";

/// canonical rendering of one evaluation: outcome, type text, diagnostics text
pub fn render(vm: &gluon::Thread, name: &str, src: &str) -> String {
    let _ = gl::take_host_log();
    let r = vm.run_expr::<gl::Opaque>(name, src);
    let log = gl::take_host_log();
    let s = match r {
        Ok((v, ty)) => {
            let val = match gl::read_value(vm, v.get_variant(), &ty) {
                Ok(val) => val.show(),
                Err(e) => format!("<bad shape: {}>", e),
            };
            format!("VALUE {}\nTYPE {}\nLOG {:?}", val, ty, log)
        }
        Err(e) => {
            let (class, msg) = gl::classify(&e);
            let emitted = e.emit_string().unwrap_or_else(|x| format!("<emit failed: {}>", x));
            format!("FAIL {}\nMSG {}\nDIAG {}\nLOG {:?}", class, msg, emitted, log)
        }
    };
    s.replace(name, "MOD")
}

fn settings_of(case: &Value) -> Settings {
    Settings::from_bits(case["bits"].as_u64().unwrap_or(0) as u32)
}

pub fn render_in_subprocess(bits: u32, src: &str) -> String {
    use std::io::Write;
    let exe = std::env::current_exe().expect("exe");
    let mut child = std::process::Command::new(exe)
        .arg("render")
        .arg(bits.to_string())
        .stdin(std::process::Stdio::piped())
        .stdout(std::process::Stdio::piped())
        .stderr(std::process::Stdio::null())
        .spawn()
        .expect("spawn render");
    child.stdin.take().unwrap().write_all(src.as_bytes()).unwrap();
    let out = child.wait_with_output().expect("render output");
    String::from_utf8_lossy(&out.stdout).to_string()
}

fn pointer_like(s: &str) -> Option<String> {
    // "0x" followed by >= 6 hex digits, or Rust's Debug of raw pointers
    let b = s.as_bytes();
    let mut i = 0;
    while i + 8 < b.len() {
        if b[i] == b'0' && b[i + 1] == b'x' {
            let n = b[i + 2..].iter().take_while(|c| c.is_ascii_hexdigit()).count();
            if n >= 6 {
                return Some(s[i..(i + 2 + n).min(s.len())].to_string());
            }
        }
        i += 1;
    }
    None
}

impl Property for C16 {
    fn id(&self) -> &'static str {
        "C16"
    }
    fn plan(&self, tier: Tier) -> Plan {
        Plan {
            random_cases: tier.pick(4000, 150_000),
            tape_len: tier.pick(900, 1600),
            watchdog_s: 120,
            worker_recycle: 200,
            ..Plan::default()
        }
    }
    fn gen(&self, t: &mut Tape, tier: Tier) -> Value {
        // mostly without the implicit prelude: a fresh VM is then cheap
        let prelude = t.chance(1, 6);
        let bits: u32 = if prelude { 0 } else { 1 } | if t.chance(1, 2) { 2 } else { 0 } | if t.chance(1, 4) { 4 } else { 0 };
        let header = if prelude { "" } else { NO_PRELUDE_HEADER };
        let n = 3 + t.pick(4);
        let mut srcs = vec![];
        let mut ill = false;
        let mut interesting = false;
        for i in 0..n {
            let cfg = GenCfg {
                max_size: tier.pick(30, 60),
                hash_only: !prelude,
                allow_fun_result: true,
                avoid: known().avoided("C16"),
                ..GenCfg::default()
            };
            let mut p = gen_program(t, cfg);
            if t.chance(1, 3) {
                mutate(&mut p, t, 3);
                if i == 0 {
                    ill = true;
                }
            }
            if i == 0 {
                interesting = p.features.iter().any(|f| f == "user_variant" || f == "match") || p.ty != crate::gen::ast::Ty::Int;
            }
            srcs.push(print_program(&p, style_from(t), header));
        }
        json!({"srcs": srcs, "bits": bits, "cross": t.chance(1, 4), "mutated": ill, "interesting": interesting})
    }
    fn exec(&self, _ctx: &mut WorkerCtx, case: &Value) -> Value {
        let s = settings_of(case);
        let srcs: Vec<String> = case["srcs"].as_array().unwrap().iter().map(|x| x.as_str().unwrap().to_string()).collect();
        let target = &srcs[0];
        let others = &srcs[1..];
        let mut out = vec![];
        {
            let vm = gl::new_vm(s);
            out.push(json!(["fresh_vm", render(&vm, "c16a", target)]));
        }
        let vm2 = gl::new_vm(s);
        for (i, o) in others.iter().enumerate() {
            let _ = render(&vm2, &format!("other{}", i), o);
        }
        out.push(json!(["after_unrelated_work", render(&vm2, "c16a", target)]));
        {
            let vm3 = gl::new_vm(s);
            for (i, o) in others.iter().enumerate().rev() {
                let _ = render(&vm3, &format!("other{}", i), o);
            }
            out.push(json!(["after_reversed_work", render(&vm3, "c16a", target)]));
        }
        out.push(json!(["same_vm_again_other_name", render(&vm2, "c16b", target)]));
        out.push(json!(["same_vm_same_name", render(&vm2, "c16a", target)]));
        if case["cross"].as_bool().unwrap_or(false) {
            let r = render_in_subprocess(case["bits"].as_u64().unwrap_or(0) as u32, target);
            out.push(json!(["other_process", r.replace("c16a", "MOD")]));
        }
        json!({"renderings": out})
    }
    fn judge(&self, case: &Value, obs: &Obs, kf: &KnownFindings) -> Judged {
        let mut j = Judged::pass();
        let src = case["srcs"][0].as_str().unwrap_or("");
        let v = match obs {
            Obs::Ok(v) => v,
            Obs::TimedOut => {
                j.verdict = Verdict::Inconclusive("watchdog".into());
                return j;
            }
            other => {
                // crashes are judged under C02/C06/C09; here they only make the case unusable
                let (k, text) = match other {
                    Obs::Panicked { msg, loc } => ("panic", format!("{} at {}", msg, loc)),
                    Obs::Died { status, tail } => ("died", format!("{} {}", status, tail)),
                    _ => ("", String::new()),
                };
                j.classes.push("crashed_case_not_compared".into());
                if kf.matches("C16", k, &text, &[]).is_none() {
                    j.verdict = Verdict::Inconclusive(format!("worker crashed (judged under C02/C09): {}", text.lines().next().unwrap_or("")));
                }
                return j;
            }
        };
        let rs = v["renderings"].as_array().cloned().unwrap_or_default();
        let first = rs[0][1].as_str().unwrap_or("").to_string();
        for r in &rs {
            let text = r[1].as_str().unwrap_or("");
            if let Some(p) = pointer_like(text) {
                j.verdict = Verdict::Violation(format!("rendering contains an address-like token {} ({})\n{}\nprogram:\n{}", p, r[0], text, src));
                return j;
            }
            if text != first {
                j.verdict = Verdict::Violation(format!(
                    "the same source with the same settings rendered differently\n--- {} ---\n{}\n--- {} ---\n{}\nprogram:\n{}",
                    rs[0][0], first, r[0], text, src
                ));
                return j;
            }
        }
        j.evals = rs.len() as u64;
        let diag = first.starts_with("FAIL typecheck") || first.starts_with("FAIL parse") || first.starts_with("FAIL multiple");
        j.classes.push(if first.starts_with("VALUE") { "value" } else if diag { "diagnostics" } else { "runtime_failure" }.to_string());
        if case["cross"].as_bool().unwrap_or(false) {
            j.classes.push("with_other_process".into());
        }
        let poly = first.contains("forall");
        let multi_diag = first.matches("error:").count() >= 2;
        if case["interesting"].as_bool().unwrap_or(false) || poly || multi_diag {
            j.nontrivial.push(fnv(src.as_bytes()));
        }
        j
    }
    fn rule(&self) -> String {
        "a target program (well typed, or mutated into an ill-typed one in a third of the cases) plus 2-5 unrelated programs; the target is rendered (value or failure, type text, diagnostics text, host calls) in a fresh VM, after the unrelated programs in both orders, again on the same VM under another and under the same module name, and (every 4th case) in a separate process; all renderings must be byte-identical and free of address-like tokens. Non-trivial = target with a match/user variant/non-Int result, a polymorphic type or >= 2 diagnostics; distinct by source".into()
    }
    fn assumptions(&self) -> Vec<String> {
        vec!["the module name is substituted back before comparing (types declared in the module print qualified by it)".into(),
             "cases in which the worker crashes are not compared (crashes are judged by C02/C06/C09)".into()]
    }
    fn describe(&self, case: &Value, obs: &Obs) -> Value {
        json!({"target": case["srcs"][0], "n_other_programs": case["srcs"].as_array().map(|a| a.len() - 1), "bits": case["bits"], "obs": obs.to_json()})
    }
}

//! C11 — marshalling between Rust and Gluon is lossless and type-faithful.
//!
//! A closed family of Rust types (scalars closed under Option/Result/Vec/tuples/BTreeMap and
//! derived structs and enums) with, for each monomorphic instantiation, a tape decoder for
//! values, a bitwise equality, the expected Gluon observation (`Val`) and a Gluon literal.
//! Routes per generated value: direct push/get, through a Gluon identity function, type-guided
//! observation of the pushed value, the serde bridge in both directions, a Gluon literal read as
//! T; plus the refusal matrix: a global / expression of type T requested at type U.
use std::collections::BTreeMap;
use std::panic::{catch_unwind, AssertUnwindSafe};

use gluon::vm::api::de::De;
use gluon::vm::api::ser::Ser;
use gluon::vm::api::{Getable, OwnedFunction, Pushable, VmType};
use gluon::vm::thread::{RootedThread, Thread};
use gluon::ThreadExt;
use serde::de::DeserializeOwned;
use serde::{Deserialize, Serialize};
use serde_json::{json, Value};

use crate::engine::*;
use crate::gl::{self, norm_float, Settings, Val};
use crate::lit;
use crate::tape::{fnv, Tape};

pub struct C11;

// ---- the family -----------------------------------------------------------------------------

pub trait Fam: Sized + Clone + std::fmt::Debug + Send + Sync + 'static {
    fn gen(t: &mut Tape, d: usize) -> Self;
    fn same(&self, o: &Self) -> bool;
    fn to_val(&self) -> Val;
    /// canonical Gluon type (source syntax); two family types are interchangeable iff equal
    fn ty_src() -> String;
    /// a Gluon expression denoting the value (None: not expressible, e.g. u64 above i64::MAX)
    fn lit(&self) -> Option<String>;
    /// nesting depth of the type
    fn depth() -> usize;
    fn boundary(&self) -> bool {
        false
    }
    /// declarations the literal needs (variant types)
    fn decls(_out: &mut Vec<String>) {}
    /// false if the type contains a constructor that `api::ser::Ser` (which is not directed by
    /// the Gluon type) is known to push in another shape than `Pushable` (known finding)
    fn ser_ok() -> bool {
        true
    }
    /// false if the type contains `Result` (`api::de::De` selects the variant of a Rust `Result`
    /// by index, Ok = 0, while Gluon's Result is `| Err e | Ok t`) or a map (`De` cannot read a
    /// std.map tree into a Rust map): recorded findings
    fn de_ok() -> bool {
        true
    }
}

macro_rules! int_fam {
    ($t:ty, $pool:expr) => {
        impl Fam for $t {
            fn gen(t: &mut Tape, _d: usize) -> Self {
                let pool: &[$t] = &$pool;
                if t.chance(1, 2) {
                    *t.choose(pool)
                } else {
                    t.u64() as $t
                }
            }
            fn same(&self, o: &Self) -> bool {
                self == o
            }
            fn to_val(&self) -> Val {
                Val::Int(*self as i64)
            }
            fn ty_src() -> String {
                "Int".into()
            }
            fn lit(&self) -> Option<String> {
                let wide = *self as i128;
                if wide > i64::MAX as i128 {
                    None
                } else {
                    Some(lit::int(*self as i64))
                }
            }
            fn depth() -> usize {
                0
            }
            fn boundary(&self) -> bool {
                let pool: &[$t] = &$pool;
                pool.contains(self)
            }
        }
    };
}
int_fam!(i64, [0, 1, -1, i64::MAX, i64::MIN, 255, 256, 1 << 32, -(1 << 31) - 1]);
int_fam!(i32, [0, 1, -1, i32::MAX, i32::MIN]);
int_fam!(i16, [0, 1, -1, i16::MAX, i16::MIN]);
int_fam!(u16, [0, 1, u16::MAX]);
int_fam!(u32, [0, 1, u32::MAX, 1 << 31]);
int_fam!(u64, [0, 1, i64::MAX as u64, (1 << 63), u64::MAX]);
int_fam!(usize, [0, 1, i64::MAX as usize, usize::MAX]);
int_fam!(isize, [0, 1, -1, isize::MAX, isize::MIN]);

impl Fam for u8 {
    fn gen(t: &mut Tape, _d: usize) -> Self {
        *t.choose(&[0u8, 1, 127, 128, 255, 65, 10])
    }
    fn same(&self, o: &Self) -> bool {
        self == o
    }
    fn to_val(&self) -> Val {
        Val::Byte(*self)
    }
    fn ty_src() -> String {
        "Byte".into()
    }
    fn ser_ok() -> bool {
        false
    }
    fn lit(&self) -> Option<String> {
        Some(lit::byte(*self))
    }
    fn depth() -> usize {
        0
    }
    fn boundary(&self) -> bool {
        *self == 0 || *self == 255
    }
}

fn gen_f64(t: &mut Tape) -> f64 {
    match t.pick(10) {
        0 => 0.0,
        1 => -0.0,
        2 => f64::INFINITY,
        3 => f64::NEG_INFINITY,
        4 => f64::NAN,
        5 => f64::from_bits(0x7FF8_0000_0000_0001 | (t.u64() & 0xFFFF)), // NaN with payload
        6 => f64::MIN_POSITIVE,
        7 => 1e308,
        8 => t.range(-100, 100) as f64 / 8.0,
        _ => f64::from_bits(t.u64()),
    }
}

impl Fam for f64 {
    fn gen(t: &mut Tape, _d: usize) -> Self {
        gen_f64(t)
    }
    fn same(&self, o: &Self) -> bool {
        self.to_bits() == o.to_bits()
    }
    fn to_val(&self) -> Val {
        Val::Float(norm_float(*self))
    }
    fn ty_src() -> String {
        "Float".into()
    }
    fn lit(&self) -> Option<String> {
        if self.is_nan() {
            None // literals cannot carry a payload
        } else {
            Some(lit::float(*self))
        }
    }
    fn depth() -> usize {
        0
    }
    fn boundary(&self) -> bool {
        !self.is_normal()
    }
}

impl Fam for f32 {
    fn gen(t: &mut Tape, _d: usize) -> Self {
        match t.pick(8) {
            0 => 0.0,
            1 => -0.0,
            2 => f32::INFINITY,
            3 => f32::NAN,
            4 => f32::MAX,
            5 => f32::MIN_POSITIVE,
            6 => t.range(-100, 100) as f32 / 8.0,
            _ => f32::from_bits(t.u64() as u32),
        }
    }
    fn same(&self, o: &Self) -> bool {
        // f32 -> f64 -> f32 is exact for every non-NaN value; NaN payloads may be quieted
        self.to_bits() == o.to_bits() || (self.is_nan() && o.is_nan())
    }
    fn to_val(&self) -> Val {
        Val::Float(norm_float(*self as f64))
    }
    fn ty_src() -> String {
        "Float".into()
    }
    fn lit(&self) -> Option<String> {
        if self.is_nan() {
            None
        } else {
            Some(lit::float(*self as f64))
        }
    }
    fn depth() -> usize {
        0
    }
    fn boundary(&self) -> bool {
        !self.is_normal()
    }
}

impl Fam for bool {
    fn gen(t: &mut Tape, _d: usize) -> Self {
        t.chance(1, 2)
    }
    fn same(&self, o: &Self) -> bool {
        self == o
    }
    fn to_val(&self) -> Val {
        Val::bool(*self)
    }
    fn ty_src() -> String {
        "Bool".into()
    }
    fn lit(&self) -> Option<String> {
        Some(if *self { "True".into() } else { "False".into() })
    }
    fn depth() -> usize {
        0
    }
}

impl Fam for char {
    fn gen(t: &mut Tape, _d: usize) -> Self {
        *t.choose(&['a', '\0', '\u{7f}', 'é', '\u{d7ff}', '\u{e000}', '\u{10ffff}', '漢', '\n', '\''])
    }
    fn same(&self, o: &Self) -> bool {
        self == o
    }
    fn to_val(&self) -> Val {
        Val::Char(*self as u32)
    }
    fn ty_src() -> String {
        "Char".into()
    }
    fn ser_ok() -> bool {
        false
    }
    fn lit(&self) -> Option<String> {
        if (*self as u32) < 32 && *self != '\n' {
            None
        } else {
            Some(lit::chr(*self))
        }
    }
    fn depth() -> usize {
        0
    }
    fn boundary(&self) -> bool {
        *self == '\0' || *self == '\u{10ffff}'
    }
}

impl Fam for String {
    fn gen(t: &mut Tape, _d: usize) -> Self {
        let pool = ['a', 'Z', ' ', 'é', '漢', '🎉', '\u{301}', '"', '\\', '\n', '\0', 'x'];
        let n = t.pick(7);
        (0..n).map(|_| *t.choose(&pool)).collect()
    }
    fn same(&self, o: &Self) -> bool {
        self == o
    }
    fn to_val(&self) -> Val {
        Val::Str(self.clone())
    }
    fn ty_src() -> String {
        "String".into()
    }
    fn lit(&self) -> Option<String> {
        if self.contains('\0') {
            None
        } else {
            Some(lit::string(self))
        }
    }
    fn depth() -> usize {
        0
    }
    fn boundary(&self) -> bool {
        self.is_empty() || self.contains('\0')
    }
}

impl Fam for () {
    fn gen(_t: &mut Tape, _d: usize) -> Self {}
    fn same(&self, _o: &Self) -> bool {
        true
    }
    fn to_val(&self) -> Val {
        Val::unit()
    }
    fn ty_src() -> String {
        "()".into()
    }
    fn ser_ok() -> bool {
        false
    }
    fn lit(&self) -> Option<String> {
        Some("()".into())
    }
    fn depth() -> usize {
        0
    }
}

impl Fam for std::cmp::Ordering {
    fn gen(t: &mut Tape, _d: usize) -> Self {
        *t.choose(&[std::cmp::Ordering::Less, std::cmp::Ordering::Equal, std::cmp::Ordering::Greater])
    }
    fn same(&self, o: &Self) -> bool {
        self == o
    }
    fn to_val(&self) -> Val {
        Val::Tag(
            match self {
                std::cmp::Ordering::Less => "LT",
                std::cmp::Ordering::Equal => "EQ",
                std::cmp::Ordering::Greater => "GT",
            }
            .into(),
            vec![],
        )
    }
    fn ty_src() -> String {
        "Ordering".into()
    }
    fn lit(&self) -> Option<String> {
        Some(
            match self {
                std::cmp::Ordering::Less => "LT",
                std::cmp::Ordering::Equal => "EQ",
                std::cmp::Ordering::Greater => "GT",
            }
            .into(),
        )
    }
    fn depth() -> usize {
        0
    }
}

impl<T: Fam> Fam for Option<T> {
    fn gen(t: &mut Tape, d: usize) -> Self {
        if t.chance(1, 3) {
            None
        } else {
            Some(T::gen(t, d + 1))
        }
    }
    fn same(&self, o: &Self) -> bool {
        match (self, o) {
            (None, None) => true,
            (Some(a), Some(b)) => a.same(b),
            _ => false,
        }
    }
    fn to_val(&self) -> Val {
        match self {
            None => Val::Tag("None".into(), vec![]),
            Some(x) => Val::Tag("Some".into(), vec![x.to_val()]),
        }
    }
    fn ty_src() -> String {
        format!("(Option {})", T::ty_src())
    }
    fn ser_ok() -> bool {
        false
    }
    fn de_ok() -> bool {
        T::de_ok()
    }
    fn lit(&self) -> Option<String> {
        match self {
            None => Some("None".into()),
            Some(x) => x.lit().map(|l| format!("(Some {})", l)),
        }
    }
    fn depth() -> usize {
        1 + T::depth()
    }
    fn boundary(&self) -> bool {
        self.as_ref().map(|x| x.boundary()).unwrap_or(true)
    }
    fn decls(out: &mut Vec<String>) {
        T::decls(out)
    }
}

impl<T: Fam, E: Fam> Fam for Result<T, E> {
    fn gen(t: &mut Tape, d: usize) -> Self {
        if t.chance(1, 2) {
            Ok(T::gen(t, d + 1))
        } else {
            Err(E::gen(t, d + 1))
        }
    }
    fn same(&self, o: &Self) -> bool {
        match (self, o) {
            (Ok(a), Ok(b)) => a.same(b),
            (Err(a), Err(b)) => a.same(b),
            _ => false,
        }
    }
    fn to_val(&self) -> Val {
        match self {
            Err(e) => Val::Tag("Err".into(), vec![e.to_val()]),
            Ok(x) => Val::Tag("Ok".into(), vec![x.to_val()]),
        }
    }
    fn ty_src() -> String {
        format!("(Result {} {})", E::ty_src(), T::ty_src())
    }
    fn ser_ok() -> bool {
        false
    }
    fn de_ok() -> bool {
        false
    }
    fn lit(&self) -> Option<String> {
        match self {
            Ok(x) => x.lit().map(|l| format!("(Ok {})", l)),
            Err(x) => x.lit().map(|l| format!("(Err {})", l)),
        }
    }
    fn depth() -> usize {
        1 + T::depth().max(E::depth())
    }
    fn boundary(&self) -> bool {
        match self {
            Ok(x) => x.boundary(),
            Err(x) => x.boundary(),
        }
    }
    fn decls(out: &mut Vec<String>) {
        T::decls(out);
        E::decls(out)
    }
}

impl<T: Fam> Fam for Vec<T> {
    fn gen(t: &mut Tape, d: usize) -> Self {
        let n = if d > 2 { t.pick(2) } else { t.pick(5) };
        (0..n).map(|_| T::gen(t, d + 1)).collect()
    }
    fn same(&self, o: &Self) -> bool {
        self.len() == o.len() && self.iter().zip(o).all(|(a, b)| a.same(b))
    }
    fn to_val(&self) -> Val {
        Val::Array(self.iter().map(|x| x.to_val()).collect())
    }
    fn ty_src() -> String {
        format!("(Array {})", T::ty_src())
    }
    fn ser_ok() -> bool {
        false
    }
    fn de_ok() -> bool {
        T::de_ok()
    }
    fn lit(&self) -> Option<String> {
        let mut parts = vec![];
        for x in self {
            parts.push(x.lit()?);
        }
        Some(format!("[{}]", parts.join(", ")))
    }
    fn depth() -> usize {
        1 + T::depth()
    }
    fn boundary(&self) -> bool {
        self.is_empty() || self.iter().any(|x| x.boundary())
    }
    fn decls(out: &mut Vec<String>) {
        T::decls(out)
    }
}

impl<A: Fam, B: Fam> Fam for (A, B) {
    fn gen(t: &mut Tape, d: usize) -> Self {
        (A::gen(t, d + 1), B::gen(t, d + 1))
    }
    fn same(&self, o: &Self) -> bool {
        self.0.same(&o.0) && self.1.same(&o.1)
    }
    fn to_val(&self) -> Val {
        Val::Record(vec![("_0".into(), self.0.to_val()), ("_1".into(), self.1.to_val())])
    }
    fn ty_src() -> String {
        format!("({}, {})", A::ty_src(), B::ty_src())
    }
    fn ser_ok() -> bool {
        A::ser_ok() && B::ser_ok()
    }
    fn de_ok() -> bool {
        A::de_ok() && B::de_ok()
    }
    fn lit(&self) -> Option<String> {
        Some(format!("({}, {})", self.0.lit()?, self.1.lit()?))
    }
    fn depth() -> usize {
        1 + A::depth().max(B::depth())
    }
    fn boundary(&self) -> bool {
        self.0.boundary() || self.1.boundary()
    }
    fn decls(out: &mut Vec<String>) {
        A::decls(out);
        B::decls(out)
    }
}

impl<A: Fam, B: Fam, C: Fam> Fam for (A, B, C) {
    fn gen(t: &mut Tape, d: usize) -> Self {
        (A::gen(t, d + 1), B::gen(t, d + 1), C::gen(t, d + 1))
    }
    fn same(&self, o: &Self) -> bool {
        self.0.same(&o.0) && self.1.same(&o.1) && self.2.same(&o.2)
    }
    fn to_val(&self) -> Val {
        Val::Record(vec![
            ("_0".into(), self.0.to_val()),
            ("_1".into(), self.1.to_val()),
            ("_2".into(), self.2.to_val()),
        ])
    }
    fn ty_src() -> String {
        format!("({}, {}, {})", A::ty_src(), B::ty_src(), C::ty_src())
    }
    fn ser_ok() -> bool {
        A::ser_ok() && B::ser_ok() && C::ser_ok()
    }
    fn de_ok() -> bool {
        A::de_ok() && B::de_ok() && C::de_ok()
    }
    fn lit(&self) -> Option<String> {
        Some(format!("({}, {}, {})", self.0.lit()?, self.1.lit()?, self.2.lit()?))
    }
    fn depth() -> usize {
        1 + A::depth().max(B::depth()).max(C::depth())
    }
    fn boundary(&self) -> bool {
        self.0.boundary() || self.1.boundary() || self.2.boundary()
    }
    fn decls(out: &mut Vec<String>) {
        A::decls(out);
        B::decls(out);
        C::decls(out)
    }
}

impl<A: Fam, B: Fam, C: Fam, D: Fam> Fam for (A, B, C, D) {
    fn gen(t: &mut Tape, d: usize) -> Self {
        (A::gen(t, d + 1), B::gen(t, d + 1), C::gen(t, d + 1), D::gen(t, d + 1))
    }
    fn same(&self, o: &Self) -> bool {
        self.0.same(&o.0) && self.1.same(&o.1) && self.2.same(&o.2) && self.3.same(&o.3)
    }
    fn to_val(&self) -> Val {
        Val::Record(vec![
            ("_0".into(), self.0.to_val()),
            ("_1".into(), self.1.to_val()),
            ("_2".into(), self.2.to_val()),
            ("_3".into(), self.3.to_val()),
        ])
    }
    fn ty_src() -> String {
        format!("({}, {}, {}, {})", A::ty_src(), B::ty_src(), C::ty_src(), D::ty_src())
    }
    fn ser_ok() -> bool {
        A::ser_ok() && B::ser_ok() && C::ser_ok() && D::ser_ok()
    }
    fn de_ok() -> bool {
        A::de_ok() && B::de_ok() && C::de_ok() && D::de_ok()
    }
    fn lit(&self) -> Option<String> {
        Some(format!("({}, {}, {}, {})", self.0.lit()?, self.1.lit()?, self.2.lit()?, self.3.lit()?))
    }
    fn depth() -> usize {
        1 + A::depth().max(B::depth()).max(C::depth()).max(D::depth())
    }
    fn boundary(&self) -> bool {
        self.0.boundary() || self.1.boundary() || self.2.boundary() || self.3.boundary()
    }
    fn decls(out: &mut Vec<String>) {
        A::decls(out);
        B::decls(out);
        C::decls(out);
        D::decls(out)
    }
}

impl<T: Fam> Fam for BTreeMap<String, T> {
    fn gen(t: &mut Tape, d: usize) -> Self {
        let n = if d > 2 { t.pick(2) } else { t.pick(5) };
        let keys = ["", "a", "b", "é", "zz", "a b"];
        (0..n).map(|_| (t.choose(&keys).to_string(), T::gen(t, d + 1))).collect()
    }
    fn same(&self, o: &Self) -> bool {
        self.len() == o.len() && self.iter().zip(o).all(|((k1, a), (k2, b))| k1 == k2 && a.same(b))
    }
    fn to_val(&self) -> Val {
        // the shape of std.map's tree is not part of the contract: observed through to_list
        Val::Opaque
    }
    fn ty_src() -> String {
        format!("(Map String {})", T::ty_src())
    }
    fn ser_ok() -> bool {
        false
    }
    fn de_ok() -> bool {
        false
    }
    fn lit(&self) -> Option<String> {
        None
    }
    fn depth() -> usize {
        1 + T::depth()
    }
    fn boundary(&self) -> bool {
        self.is_empty()
    }
    fn decls(out: &mut Vec<String>) {
        T::decls(out)
    }
}

// ---- derived structs and enums ------------------------------------------------------------

macro_rules! fam_struct {
    ($name:ident { $($f:ident : $t:ty),* }) => {
        #[derive(Clone, Debug, Getable, Pushable, VmType, Serialize, Deserialize)]
        pub struct $name { $(pub $f: $t),* }
        impl Fam for $name {
            fn gen(t: &mut Tape, d: usize) -> Self { $name { $($f: <$t as Fam>::gen(t, d + 1)),* } }
            fn same(&self, o: &Self) -> bool { true $(&& self.$f.same(&o.$f))* }
            fn to_val(&self) -> Val { Val::Record(vec![$((stringify!($f).to_string(), self.$f.to_val())),*]) }
            fn ty_src() -> String {
                let fs: Vec<String> = vec![$(format!("{} : {}", stringify!($f), <$t as Fam>::ty_src())),*];
                format!("{{ {} }}", fs.join(", "))
            }
            fn lit(&self) -> Option<String> {
                let fs: Vec<String> = vec![$(format!("{} = {}", stringify!($f), self.$f.lit()?)),*];
                Some(format!("{{ {} }}", fs.join(", ")))
            }
            fn depth() -> usize { 1 + [$(<$t as Fam>::depth()),*].iter().copied().max().unwrap_or(0) }
            fn boundary(&self) -> bool { false $(|| self.$f.boundary())* }
            fn decls(out: &mut Vec<String>) { $(<$t as Fam>::decls(out);)* }
            fn ser_ok() -> bool { true $(&& <$t as Fam>::ser_ok())* }
            fn de_ok() -> bool { true $(&& <$t as Fam>::de_ok())* }
        }
    };
}

fam_struct!(S1 { a: i64, b: String });
fam_struct!(S2 { x: f64, y: Option<i32>, z: Vec<String> });
// the fields of S1 in the other order: a different Gluon type
fam_struct!(S3 { b: String, a: i64 });
fam_struct!(S4 { inner: S1, list: Vec<S2>, t: (i64, String) });
fam_struct!(S5 { r: Result<i64, String>, c: char, u: u8, unit: () });
fam_struct!(S6 { f1: u8, f2: f64, f3: bool, f4: String, f5: i64, f6: Vec<u8>, f7: Vec<f64> });

#[derive(Clone, Debug, Getable, Pushable, VmType, Serialize, Deserialize)]
pub struct N1(pub i64);
impl Fam for N1 {
    fn gen(t: &mut Tape, d: usize) -> Self {
        N1(i64::gen(t, d))
    }
    fn same(&self, o: &Self) -> bool {
        self.0 == o.0
    }
    fn to_val(&self) -> Val {
        Val::Int(self.0)
    }
    fn ty_src() -> String {
        "Int".into()
    }
    fn lit(&self) -> Option<String> {
        self.0.lit()
    }
    fn depth() -> usize {
        1
    }
}

#[derive(Clone, Debug, Getable, Pushable, VmType, Serialize, Deserialize)]
pub enum E1 {
    A,
    B,
    C,
}
impl Fam for E1 {
    fn gen(t: &mut Tape, _d: usize) -> Self {
        [E1::A, E1::B, E1::C][t.pick(3)].clone()
    }
    fn same(&self, o: &Self) -> bool {
        std::mem::discriminant(self) == std::mem::discriminant(o)
    }
    fn to_val(&self) -> Val {
        Val::Tag(format!("{:?}", self), vec![])
    }
    fn ty_src() -> String {
        "E1".into()
    }
    fn lit(&self) -> Option<String> {
        Some(format!("{:?}", self))
    }
    fn depth() -> usize {
        1
    }
    fn decls(out: &mut Vec<String>) {
        out.push("type E1 = | A | B | C".into());
    }
}

#[derive(Clone, Debug, Getable, Pushable, VmType, Serialize, Deserialize)]
pub enum E2 {
    One,
    Two(u32),
    Three { id: String },
}
impl Fam for E2 {
    fn gen(t: &mut Tape, d: usize) -> Self {
        match t.pick(3) {
            0 => E2::One,
            1 => E2::Two(u32::gen(t, d + 1)),
            _ => E2::Three { id: String::gen(t, d + 1) },
        }
    }
    fn same(&self, o: &Self) -> bool {
        match (self, o) {
            (E2::One, E2::One) => true,
            (E2::Two(a), E2::Two(b)) => a == b,
            (E2::Three { id: a }, E2::Three { id: b }) => a == b,
            _ => false,
        }
    }
    fn to_val(&self) -> Val {
        match self {
            E2::One => Val::Tag("One".into(), vec![]),
            E2::Two(x) => Val::Tag("Two".into(), vec![x.to_val()]),
            E2::Three { id } => Val::Tag("Three".into(), vec![Val::Record(vec![("id".into(), id.to_val())])]),
        }
    }
    fn ty_src() -> String {
        "E2".into()
    }
    fn lit(&self) -> Option<String> {
        Some(match self {
            E2::One => "One".into(),
            E2::Two(x) => format!("(Two {})", x.lit()?),
            E2::Three { id } => format!("(Three {{ id = {} }})", id.lit()?),
        })
    }
    fn depth() -> usize {
        2
    }
    fn decls(out: &mut Vec<String>) {
        out.push("type E2 = | One | Two Int | Three { id : String }".into());
    }
}

#[derive(Clone, Debug, Getable, Pushable, VmType, Serialize, Deserialize)]
pub enum E3 {
    P(i64, String),
    Q(Vec<f64>),
    R,
}
impl Fam for E3 {
    fn gen(t: &mut Tape, d: usize) -> Self {
        match t.pick(3) {
            0 => E3::P(i64::gen(t, d + 1), String::gen(t, d + 1)),
            1 => E3::Q(Vec::<f64>::gen(t, d + 1)),
            _ => E3::R,
        }
    }
    fn same(&self, o: &Self) -> bool {
        match (self, o) {
            (E3::P(a, b), E3::P(c, d)) => a == c && b == d,
            (E3::Q(a), E3::Q(b)) => a.same(b),
            (E3::R, E3::R) => true,
            _ => false,
        }
    }
    fn to_val(&self) -> Val {
        match self {
            E3::P(a, b) => Val::Tag("P".into(), vec![a.to_val(), b.to_val()]),
            E3::Q(a) => Val::Tag("Q".into(), vec![a.to_val()]),
            E3::R => Val::Tag("R".into(), vec![]),
        }
    }
    fn ty_src() -> String {
        "E3".into()
    }
    fn lit(&self) -> Option<String> {
        Some(match self {
            E3::P(a, b) => format!("(P {} {})", a.lit()?, b.lit()?),
            E3::Q(a) => format!("(Q {})", a.lit()?),
            E3::R => "R".into(),
        })
    }
    fn depth() -> usize {
        2
    }
    fn boundary(&self) -> bool {
        matches!(self, E3::Q(v) if v.boundary())
    }
    fn decls(out: &mut Vec<String>) {
        out.push("type E3 = | P Int String | Q (Array Float) | R".into());
    }
    fn ser_ok() -> bool {
        false
    }
}

#[derive(Clone, Debug, Getable, Pushable, VmType, Serialize, Deserialize)]
pub enum E4 {
    L(Option<i64>),
    M { a: S1, b: f64 },
}
impl Fam for E4 {
    fn gen(t: &mut Tape, d: usize) -> Self {
        match t.pick(2) {
            0 => E4::L(Option::<i64>::gen(t, d + 1)),
            _ => E4::M { a: S1::gen(t, d + 1), b: gen_f64(t) },
        }
    }
    fn same(&self, o: &Self) -> bool {
        match (self, o) {
            (E4::L(a), E4::L(b)) => a.same(b),
            (E4::M { a, b }, E4::M { a: c, b: d }) => a.same(c) && b.same(d),
            _ => false,
        }
    }
    fn to_val(&self) -> Val {
        match self {
            E4::L(a) => Val::Tag("L".into(), vec![a.to_val()]),
            E4::M { a, b } => Val::Tag("M".into(), vec![Val::Record(vec![("a".into(), a.to_val()), ("b".into(), b.to_val())])]),
        }
    }
    fn ty_src() -> String {
        "E4".into()
    }
    fn lit(&self) -> Option<String> {
        Some(match self {
            E4::L(a) => format!("(L {})", a.lit()?),
            E4::M { a, b } => format!("(M {{ a = {}, b = {} }})", a.lit()?, b.lit()?),
        })
    }
    fn depth() -> usize {
        3
    }
    fn boundary(&self) -> bool {
        match self {
            E4::L(a) => a.boundary(),
            E4::M { a, b } => a.boundary() || b.boundary(),
        }
    }
    fn decls(out: &mut Vec<String>) {
        out.push("type E4 = | L (Option Int) | M { a : { a : Int, b : String }, b : Float }".into());
    }
    fn ser_ok() -> bool {
        false
    }
}

// ---- routes ---------------------------------------------------------------------------------

pub trait Marshal: Fam + VmType + for<'vm> Pushable<'vm> + for<'vm, 'value> Getable<'vm, 'value> + Serialize + DeserializeOwned
where
    <Self as VmType>::Type: Sized,
{
}
impl<T> Marshal for T
where
    T: Fam + VmType + for<'vm> Pushable<'vm> + for<'vm, 'value> Getable<'vm, 'value> + Serialize + DeserializeOwned,
    <T as VmType>::Type: Sized,
{
}

fn guarded<F: FnOnce() -> Result<(), String>>(name: &str, out: &mut Vec<Value>, f: F) {
    let r = catch_unwind(AssertUnwindSafe(f));
    match r {
        Ok(Ok(())) => out.push(json!({"route": name, "ok": true})),
        Ok(Err(e)) => out.push(json!({"route": name, "ok": false, "detail": e})),
        Err(_) => {
            let (msg, loc) = take_panic_info().unwrap_or_default();
            out.push(json!({"route": name, "ok": false, "detail": format!("panic: {} at {}", msg, loc)}))
        }
    }
}

const LIT_HEADER: &str = "let { Result } = import! std.result\n";

fn decl_text<T: Fam>() -> String {
    let mut d = vec![];
    T::decls(&mut d);
    d.sort();
    d.dedup();
    d.iter().map(|x| format!("{}\n", x)).collect()
}

fn run_value<T: Marshal>(vm: &Thread, tape: &[u32]) -> Value
where
    <T as VmType>::Type: Sized,
{
    let mut t = Tape::new(tape);
    let v = T::gen(&mut t, 0);
    let mut routes = vec![];
    let ty = T::make_type(vm);
    // (1) push, read back
    guarded("push_get", &mut routes, || {
        let rooted = v.clone().marshal::<RootedThread>(vm).map_err(|e| format!("push failed: {}", e))?;
        let back = T::from_value(vm, rooted.get_variant());
        if back.same(&v) {
            Ok(())
        } else {
            Err(format!("got {:?}", back))
        }
    });
    // (2) what Gluon sees: walk the pushed value guided by T's Gluon type
    guarded("observe", &mut routes, || {
        let rooted = v.clone().marshal::<RootedThread>(vm).map_err(|e| format!("push failed: {}", e))?;
        let seen = gl::read_value(vm, rooted.get_variant(), &ty)?;
        let want = v.to_val();
        if crate::props::common::same_val(&want, &seen) {
            Ok(())
        } else {
            Err(format!("gluon value {} , expected {}", seen.show(), want.show()))
        }
    });
    // (3) through a Gluon function
    guarded("identity_fn", &mut routes, || {
        let (mut f, _) = vm
            .run_expr::<OwnedFunction<fn(T) -> T>>("c11id", "\\x -> x")
            .map_err(|e| format!("cannot type the identity at T -> T: {}", e))?;
        let back = f.call(v.clone()).map_err(|e| format!("call failed: {}", e))?;
        if back.same(&v) {
            Ok(())
        } else {
            Err(format!("got {:?}", back))
        }
    });
    // (4) serde bridge.  `Ser` pushes without looking at the Gluon type; for the constructors
    // listed in `ser_ok` it is known (recorded finding) to push another shape than the type says.
    let mut ser_value = None;
    guarded(if T::ser_ok() { "ser_observe" } else { "ser_observe_untyped_shape" }, &mut routes, || {
        let rooted = Ser(v.clone()).marshal::<RootedThread>(vm).map_err(|e| format!("Ser push failed: {}", e))?;
        let seen = gl::read_value(vm, rooted.get_variant(), &ty)?;
        if !crate::props::common::same_val(&v.to_val(), &seen) {
            return Err(format!("Ser pushed {} , expected {}", seen.show(), v.to_val().show()));
        }
        ser_value = Some(rooted);
        Ok(())
    });
    if let Some(rooted) = &ser_value {
        guarded(if T::de_ok() { "ser_then_de" } else { "ser_then_de_known_gap" }, &mut routes, || {
            let De(back) = De::<T>::from_value(vm, rooted.get_variant());
            if back.same(&v) {
                Ok(())
            } else {
                Err(format!("De got {:?}", back))
            }
        });
        guarded("ser_then_getable", &mut routes, || {
            let back2 = T::from_value(vm, rooted.get_variant());
            if back2.same(&v) {
                Ok(())
            } else {
                Err(format!("Getable of a Ser value got {:?}", back2))
            }
        });
    }
    guarded(if T::de_ok() { "push_then_de" } else { "push_then_de_known_gap" }, &mut routes, || {
        let rooted2 = v.clone().marshal::<RootedThread>(vm).map_err(|e| format!("push failed: {}", e))?;
        let De(back3) = De::<T>::from_value(vm, rooted2.get_variant());
        if back3.same(&v) {
            Ok(())
        } else {
            Err(format!("De of a Pushable value got {:?}", back3))
        }
    });
    // (5) a Gluon literal read as T
    let lit = v.lit();
    if let Some(l) = &lit {
        guarded("literal", &mut routes, || {
            let src = format!("{}{}let v : {} = {}\nv\n", LIT_HEADER, decl_text::<T>(), T::ty_src(), l);
            let (back, _) = vm.run_expr::<T>("c11lit", &src).map_err(|e| format!("literal rejected: {}\n{}", e, src))?;
            if back.same(&v) {
                Ok(())
            } else {
                Err(format!("literal {} read as {:?}", l, back))
            }
        });
    }
    json!({"value": format!("{:?}", v), "routes": routes, "boundary": v.boundary(), "has_literal": lit.is_some(),
           "value_hash": fnv(format!("{:?}", v).as_bytes())})
}

/// a literal of T (if expressible) for the refusal matrix
fn sample_literal<T: Marshal>() -> Option<String>
where
    <T as VmType>::Type: Sized,
{
    for seed in 0..20u64 {
        let tape = crate::tape::tape_from_seed(seed * 7 + 1, 64);
        let mut t = Tape::new(&tape);
        let v = T::gen(&mut t, 0);
        if let Some(l) = v.lit() {
            return Some(format!("{}{}let v : {} = {}\nv\n", LIT_HEADER, decl_text::<T>(), T::ty_src(), l));
        }
    }
    None
}

/// requests the expression / global `src` (of family type number `from`) at type U
fn request_as<U: Marshal>(vm: &Thread, src: &str, global: &str) -> Value
where
    <U as VmType>::Type: Sized,
{
    let mut out = json!({});
    let r = catch_unwind(AssertUnwindSafe(|| vm.run_expr::<U>("c11req", src).map(|_| ()).map_err(|e| e.to_string())));
    out["run_expr"] = match r {
        Ok(Ok(())) => json!("ok"),
        Ok(Err(e)) => json!({ "err": e.lines().next().unwrap_or("") }),
        Err(_) => json!({"panic": format!("{:?}", take_panic_info())}),
    };
    let r = catch_unwind(AssertUnwindSafe(|| vm.get_global::<U>(global).map(|_| ()).map_err(|e| e.to_string())));
    out["get_global"] = match r {
        Ok(Ok(())) => json!("ok"),
        Ok(Err(e)) => json!({ "err": e.lines().next().unwrap_or("") }),
        Err(_) => json!({"panic": format!("{:?}", take_panic_info())}),
    };
    out
}

struct Entry {
    name: &'static str,
    ty_src: fn() -> String,
    depth: fn() -> usize,
    run: fn(&Thread, &[u32]) -> Value,
    literal: fn() -> Option<String>,
    request: fn(&Thread, &str, &str) -> Value,
}

macro_rules! entries {
    ($($t:ty),* $(,)?) => {
        vec![$(Entry {
            name: stringify!($t),
            ty_src: <$t as Fam>::ty_src,
            depth: <$t as Fam>::depth,
            run: run_value::<$t>,
            literal: sample_literal::<$t>,
            request: request_as::<$t>,
        }),*]
    };
}

fn registry() -> Vec<Entry> {
    entries![
        i64, i32, i16, u16, u32, u64, usize, isize, u8, f64, f32, bool, char, String, (),
        Option<i64>, Option<String>, Option<f64>, Option<Option<i64>>, Option<Vec<u8>>,
        Result<i64, String>, Result<Vec<f64>, ()>, Result<Option<String>, i32>,
        Vec<i64>, Vec<u8>, Vec<f64>, Vec<String>, Vec<bool>, Vec<Vec<i64>>, Vec<Option<i64>>, Vec<(i64, String)>, Vec<S1>, Vec<E2>,
        (i64, String), (f64, bool, u8), (String, Vec<i64>, Option<f64>, char), ((i64, i64), (String, String)),
        BTreeMap<String, i64>, BTreeMap<String, Vec<String>>,
        S1, S2, S3, S4, S5, S6, N1, E1, E2, E3, E4,
        Option<S1>, Option<E3>, Result<S2, E1>, (S1, E2), Vec<Option<S1>>
    ]
}

// ---- property -----------------------------------------------------------------------------

fn vm_of(ctx: &mut WorkerCtx) -> RootedThread {
    if ctx.state.is_none() {
        let vm = gl::new_vm(Settings::default());
        // types the family refers to by name
        let _ = vm.run_expr::<gl::Opaque>("c11init", "let _ = import! std.map\nlet _ = import! std.cmp\n()");
        ctx.state = Some(Box::new(vm));
    }
    ctx.state.as_ref().unwrap().downcast_ref::<RootedThread>().unwrap().clone()
}

impl Property for C11 {
    fn id(&self) -> &'static str {
        "C11"
    }
    fn plan(&self, tier: Tier) -> Plan {
        Plan {
            random_cases: tier.pick(60_000, 1_500_000),
            tape_len: 96,
            watchdog_s: 120,
            worker_recycle: 2000,
            ..Plan::default()
        }
    }
    fn fixed_cases(&self, _tier: Tier) -> Vec<Value> {
        // refusal matrix: every family type with a literal, requested at every family type
        let reg = registry();
        (0..reg.len()).map(|i| json!({"kind": "refuse", "from": i, "from_name": reg[i].name})).collect()
    }
    fn exhaustive_note(&self, _tier: Tier) -> Option<String> {
        let n = registry().len();
        Some(format!("refusal matrix: a literal / global of each of the {} family types requested at each of the {} types ({} requests x 2 APIs)", n, n, n * n))
    }
    fn gen(&self, t: &mut Tape, _tier: Tier) -> Value {
        let reg = registry();
        let i = t.pick(reg.len());
        let tape: Vec<u32> = (0..80).map(|_| t.next()).collect();
        json!({"kind": "value", "ty": i, "ty_name": reg[i].name, "tape": tape})
    }
    fn exec(&self, ctx: &mut WorkerCtx, case: &Value) -> Value {
        let vm = vm_of(ctx);
        let reg = registry();
        match case["kind"].as_str().unwrap_or("") {
            "value" => {
                // the name is authoritative (replay files survive changes of the registry order)
                let i = case["ty_name"]
                    .as_str()
                    .and_then(|n| reg.iter().position(|e| e.name == n))
                    .unwrap_or_else(|| case["ty"].as_u64().unwrap() as usize);
                let tape: Vec<u32> = serde_json::from_value(case["tape"].clone()).unwrap();
                let mut r = (reg[i].run)(&vm, &tape);
                r["depth"] = json!((reg[i].depth)());
                r
            }
            _ => {
                let i = case["from"].as_u64().unwrap() as usize;
                let src = match (reg[i].literal)() {
                    Some(s) => s,
                    None => return json!({"no_literal": true}),
                };
                let gname = format!("c11g{}", i);
                if let Err(e) = vm.load_script(&gname, &src) {
                    return json!({"load_failed": e.to_string(), "src": src});
                }
                let from_ty = (reg[i].ty_src)();
                let mut rows = vec![];
                for (k, u) in reg.iter().enumerate() {
                    let r = (u.request)(&vm, &src, &gname);
                    rows.push(json!({"to": k, "to_name": u.name, "same_type": (u.ty_src)() == from_ty, "r": r}));
                }
                json!({"rows": rows, "src": src})
            }
        }
    }
    fn judge(&self, case: &Value, obs: &Obs, kf: &KnownFindings) -> Judged {
        let mut j = Judged::pass();
        let v = match obs {
            Obs::Ok(v) => v,
            Obs::TimedOut => {
                j.verdict = Verdict::Inconclusive("watchdog".into());
                return j;
            }
            other => {
                let (k, text) = match other {
                    Obs::Panicked { msg, loc } => ("panic", format!("{} at {}", msg, loc)),
                    Obs::Died { status, tail } => ("died", format!("{} {}", status, tail)),
                    _ => ("", String::new()),
                };
                j.verdict = match kf.matches("C11", k, &text, &[]) {
                    Some(id) => Verdict::Known(id),
                    None => Verdict::Violation(format!("marshalling killed or panicked the host: {}\ncase: {}", other.to_json(), case)),
                };
                return j;
            }
        };
        if case["kind"] == "value" {
            let name = case["ty_name"].as_str().unwrap_or("");
            let mut feats = vec![format!("type:{}", name)];
            if name.contains("Result<") || name == "S5" {
                feats.push("contains_result".into());
            }
            if name.contains("BTreeMap<") {
                feats.push("contains_map".into());
            }
            let mut known_ids: Vec<String> = vec![];
            for r in v["routes"].as_array().cloned().unwrap_or_default() {
                if r["ok"] != true {
                    let what = format!(
                        "type {} value {} route {}: {}",
                        name,
                        v["value"].as_str().unwrap_or(""),
                        r["route"].as_str().unwrap_or(""),
                        r["detail"].as_str().unwrap_or("")
                    );
                    if std::env::var("C11_SURVEY").is_ok() {
                        // experimentation aid (not used by registered commands): histogram of failures
                        let d: String = r["detail"].as_str().unwrap_or("").chars().take(70).collect();
                        j.classes.push(format!("FAIL {} {}: {}", name, r["route"].as_str().unwrap_or(""), d));
                        continue;
                    }
                    match kf.matches("C11", "wrong_value", &what, &feats) {
                        // keep judging the other routes of this value
                        Some(id) => {
                            j.classes.push(format!("known:{}", id));
                            known_ids.push(id);
                        }
                        None => {
                            j.verdict = Verdict::Violation(what);
                            return j;
                        }
                    }
                }
            }
            known_ids.sort();
            if let Some(id) = known_ids.pop() {
                j.verdict = Verdict::Known(id);
            }
            j.evals = v["routes"].as_array().map(|a| a.len() as u64).unwrap_or(1);
            j.classes.push(format!("type:{}", name));
            if v["has_literal"] == true {
                j.classes.push("literal_route".into());
            }
            let depth = v["depth"].as_u64().unwrap_or(0);
            if depth >= 2 || v["boundary"] == true {
                j.nontrivial.push(fnv(format!("{}:{}", name, v["value_hash"]).as_bytes()));
            }
        } else {
            if v.get("no_literal").is_some() {
                j.classes.push("refuse:type_without_literal".into());
                return j;
            }
            if let Some(e) = v.get("load_failed") {
                j.verdict = Verdict::Inconclusive(format!("could not define the global: {}", e));
                return j;
            }
            let from = case["from_name"].as_str().unwrap_or("");
            let mut n = 0;
            for row in v["rows"].as_array().cloned().unwrap_or_default() {
                let same = row["same_type"] == true;
                for api in ["run_expr", "get_global"] {
                    n += 1;
                    let r = &row["r"][api];
                    let ok = r == "ok";
                    let panicked = r.get("panic").is_some();
                    let to = row["to_name"].as_str().unwrap_or("");
                    if panicked || ok != same {
                        let what = format!(
                            "{} of a value of Rust type {} at Rust type {}: {} (gluon types {}); expression:\n{}",
                            api,
                            from,
                            to,
                            if panicked { format!("panicked {}", r) } else if ok { "accepted although the types differ".to_string() } else { format!("refused although the types agree: {}", r) },
                            if same { "equal" } else { "different" },
                            v["src"].as_str().unwrap_or("")
                        );
                        j.verdict = match kf.matches("C11", "wrong_value", &what, &[]) {
                            Some(id) => Verdict::Known(id),
                            None => Verdict::Violation(what),
                        };
                        return j;
                    }
                    if !same {
                        j.nontrivial.push(fnv(format!("{}->{}:{}", from, to, api).as_bytes()));
                    }
                }
            }
            j.evals = n;
            j.classes.push("refusal_row".into());
        }
        j
    }
    fn rule(&self) -> String {
        "values (boundary pool + random; floats by bit pattern incl. NaN payloads and -0.0; strings with multi-byte characters and NUL; empty and non-empty vectors/maps) of 56 monomorphic Rust types (13 scalars, Option/Result/Vec/tuple/BTreeMap nestings to depth 3, 7 derived structs incl. a reordered-field pair and a newtype, 4 derived enums with unit/tuple/struct variants). Per value: push+get, type-guided observation of what Gluon sees, through a Gluon identity function typed T -> T, serde bridge (Ser->De, Ser->Getable, Pushable->De), a Gluon literal read as T; each must return the original (bitwise on floats). Refusal matrix (complete): a literal/global of each type requested at each type through run_expr::<U> and get_global::<U> must succeed iff the two Gluon types are equal. Non-trivial = nesting depth >= 2 or a boundary scalar inside; refusal pairs with different types. Distinct by (type, value) / (from, to, api)".into()
    }
    fn assumptions(&self) -> Vec<String> {
        vec![
            "unsigned values above i64::MAX round-trip but appear negative to Gluon code (Int is i64); their observation is compared as i64".into(),
            "f32 NaN payloads are not compared (f32 -> f64 -> f32 may quiet a signalling NaN)".into(),
            "BTreeMap values are observed through the round trips only (the tree shape of std.map is not a contract)".into(),
            "userdata, OpaqueValue and async functions are outside the stated family".into(),
        ]
    }
    fn describe(&self, case: &Value, obs: &Obs) -> Value {
        let mut o = obs.to_json();
        // refusal rows are long; keep the sample readable
        if case["kind"] == "refuse" {
            if let Some(rows) = o.pointer_mut("/ok/rows") {
                if let Some(a) = rows.as_array_mut() {
                    a.truncate(6);
                }
            }
        }
        json!({"case": {"kind": case["kind"], "ty_name": case["ty_name"], "from_name": case["from_name"]}, "obs": o})
    }
}

//! C06 — scripts cannot crash the host; errors are values; the VM stays usable.
use std::collections::BTreeMap;
use std::sync::OnceLock;

use gluon::base::types::{ArcType, ArgType, BuiltinType, Type};
use gluon::{RootedThread, ThreadExt};
use serde_json::{json, Value};

use crate::engine::*;
use crate::gl::{self, Outcome, Settings};
use crate::lit;
use crate::tape::{fnv, Tape};

pub struct C06;

#[derive(Clone, Debug, PartialEq)]
pub enum ArgKind {
    Int,
    Byte,
    Float,
    Char,
    Str,
    Bool,
    Unit,
    Ordering,
    Generic,
    Array(Box<ArgKind>),
    Option(Box<ArgKind>),
    Fun(Vec<ArgKind>, Box<ArgKind>),
}

#[derive(Clone, Debug)]
pub struct PrimFn {
    pub module: String,
    pub path: String,
    pub args: Vec<ArgKind>,
    pub io: bool,
    pub deterministic: bool,
    pub ty: String,
}

impl PrimFn {
    pub fn name(&self) -> String {
        format!("{}.{}", self.module, self.path)
    }
}

pub const MODULES: &[&str] = &[
    "std.prim",
    "std.byte.prim",
    "std.int.prim",
    "std.float.prim",
    "std.string.prim",
    "std.char.prim",
    "std.array.prim",
    "std.fs.prim",
    "std.path.prim",
    "std.io.prim",
    "std.env.prim",
    "std.debug.prim",
    "std.lazy.prim",
    "std.reference.prim",
    "std.channel.prim",
    "std.thread.prim",
    "std.json.prim",
    "std.regex.prim",
    "std.random.prim",
    "std.effect.st.string.prim",
    "std.process.prim",
    "std.int",
    "std.byte",
    "std.float",
    "std.char",
    "std.string",
    "std.array",
    "std.path",
    "std.regex",
];

/// functions never called: they block, touch the world outside the sandbox directory, or are
/// host-control primitives whose effect is not a failure of the script
const DENY: &[&str] = &[
    "std.process.prim.",
    "std.thread.prim.sleep",
    "std.thread.prim.interrupt",
    "std.thread.prim.new_thread",
    "std.thread.prim.spawn",
    "std.thread.prim.resume",
    "std.thread.prim.yield",
    "std.thread.prim.join",
    "std.env.prim.set_current_dir",
    "std.env.prim.set_var",
    "std.env.prim.remove_var",
    "std.fs.prim.create",
    "std.fs.prim.remove",
    "std.fs.prim.write",
    "std.fs.prim.rename",
    "std.fs.prim.copy",
    "std.io.prim.open_file",
    "std.io.prim.create_file",
    "std.io.prim.write",
    "std.io.prim.read_line",
    "std.io.prim.read_char",
    "std.prim.error",
    "std.io.prim.run_expr",
    "std.io.prim.load_script",
    "std.io.prim.throw",
];

const NONDET: &[&str] = &["std.random", "std.env", "std.fs", "std.io.prim", "std.debug", "std.path.prim"];

fn tname(t: &ArcType) -> String {
    t.to_string()
}

fn argkind(t: &ArcType) -> Option<ArgKind> {
    match &**t {
        Type::Builtin(BuiltinType::Int) => Some(ArgKind::Int),
        Type::Builtin(BuiltinType::Byte) => Some(ArgKind::Byte),
        Type::Builtin(BuiltinType::Float) => Some(ArgKind::Float),
        Type::Builtin(BuiltinType::Char) => Some(ArgKind::Char),
        Type::Builtin(BuiltinType::String) => Some(ArgKind::Str),
        Type::Generic(_) | Type::Variable(_) | Type::Skolem(_) => Some(ArgKind::Generic),
        Type::Forall(_, inner) => argkind(inner),
        Type::Function(ArgType::Explicit, _, _) => {
            let mut args = vec![];
            let mut cur = t.clone();
            loop {
                let next = match &*cur {
                    Type::Function(ArgType::Explicit, a, r) => {
                        args.push(argkind(a)?);
                        r.clone()
                    }
                    _ => break,
                };
                cur = next;
            }
            let ret = argkind(&cur)?;
            Some(ArgKind::Fun(args, Box::new(ret)))
        }
        Type::App(f, args) => match &**f {
            Type::Builtin(BuiltinType::Array) => Some(ArgKind::Array(Box::new(argkind(&args[0])?))),
            _ => {
                let n = tname(f);
                if n.ends_with("Option") && args.len() == 1 {
                    Some(ArgKind::Option(Box::new(argkind(&args[0])?)))
                } else {
                    None
                }
            }
        },
        Type::Record(_) if tname(t) == "()" => Some(ArgKind::Unit),
        Type::Alias(_) | Type::Ident(_) | Type::Projection(_) => {
            let n = tname(t);
            if n.ends_with("Bool") {
                Some(ArgKind::Bool)
            } else if n.ends_with("Ordering") {
                Some(ArgKind::Ordering)
            } else {
                None
            }
        }
        _ => None,
    }
}

fn walk_record(
    module: &str,
    prefix: &str,
    t: &ArcType,
    out: &mut Vec<PrimFn>,
    skipped: &mut Vec<String>,
    depth: usize,
) {
    use gluon::base::types::{remove_forall, row_iter};
    let t = remove_forall(t);
    if let Type::Record(row) = &**t {
        for f in row_iter(row) {
            let fname = f.name.declared_name().to_string();
            let path = if prefix.is_empty() {
                fname.clone()
            } else {
                format!("{}.{}", prefix, fname)
            };
            let ft = remove_forall(&f.typ);
            match &**ft {
                Type::Function(ArgType::Explicit, _, _) => {
                    let full = format!("{}.{}", module, path);
                    if DENY.iter().any(|d| full.starts_with(d)) {
                        skipped.push(format!("{} (deny list)", full));
                        continue;
                    }
                    let mut args = vec![];
                    let mut cur = ft.clone();
                    let mut ok = true;
                    loop {
                        let next = match &*cur {
                            Type::Function(ArgType::Explicit, a, r) => {
                                match argkind(a) {
                                    Some(k) => args.push(k),
                                    None => ok = false,
                                }
                                r.clone()
                            }
                            _ => break,
                        };
                        cur = next;
                    }
                    if !ok {
                        skipped.push(format!("{} : {} (argument type not in pools)", full, ft));
                        continue;
                    }
                    let rs = tname(&cur);
                    out.push(PrimFn {
                        module: module.to_string(),
                        path,
                        args,
                        io: rs.contains("IO ") || rs.ends_with("IO"),
                        deterministic: !NONDET.iter().any(|n| module.starts_with(n)),
                        ty: ft.to_string(),
                    });
                }
                Type::Function(..) => {
                    skipped.push(format!("{}.{} (implicit argument)", module, path));
                }
                Type::Record(_) if depth < 2 => {
                    walk_record(module, &path, ft, out, skipped, depth + 1)
                }
                _ => {}
            }
        }
    }
}

pub struct Table {
    pub fns: Vec<PrimFn>,
    pub skipped: Vec<String>,
}

pub fn table() -> &'static Table {
    static T: OnceLock<Table> = OnceLock::new();
    T.get_or_init(|| {
        let vm = gl::new_vm(Settings::default());
        let mut fns = vec![];
        let mut skipped = vec![];
        for m in MODULES {
            let r = std::panic::catch_unwind(std::panic::AssertUnwindSafe(|| {
                vm.run_expr::<gl::Opaque>("enum", &format!("import! {}", m))
            }));
            match r {
                Ok(Ok((_, ty))) => walk_record(m, "", &ty, &mut fns, &mut skipped, 0),
                Ok(Err(e)) => skipped.push(format!("{}: module failed to load: {}", m, e)),
                Err(_) => skipped.push(format!("{}: panicked while loading in the driver", m)),
            }
        }
        Table { fns, skipped }
    })
}

fn pool(k: &ArgKind) -> Vec<String> {
    match k {
        ArgKind::Int | ArgKind::Generic => [
            0i64,
            1,
            -1,
            2,
            3,
            36,
            37,
            63,
            64,
            65,
            99,
            100,
            255,
            256,
            -128,
            55296,
            1114111,
            1114112,
            4294967296,
            i64::MAX,
            i64::MIN,
            i64::MIN + 1,
        ]
        .iter()
        .map(|i| lit::int(*i))
        .collect(),
        ArgKind::Byte => [0u8, 1, 7, 8, 127, 128, 255]
            .iter()
            .map(|b| lit::byte(*b))
            .collect(),
        ArgKind::Float => [
            0.0f64,
            -0.0,
            1.0,
            -1.0,
            0.5,
            2.5,
            1e19,
            -1e19,
            9007199254740993.0,
            1e308,
            5e-324,
            f64::INFINITY,
            f64::NEG_INFINITY,
            f64::NAN,
        ]
        .iter()
        .map(|f| lit::float(*f))
        .collect(),
        ArgKind::Char => ['a', '0', 'Z', ' ', '\n', 'é', '\u{D7FF}', '\u{E000}', '\u{10FFFF}', '9', 'z', '中']
            .iter()
            .map(|c| lit::chr(*c))
            .collect(),
        ArgKind::Str => [
            "",
            "a",
            "abc",
            "é",
            "日本語",
            "a\u{0301}b",
            "😀x",
            "  pad  ",
            "12",
            "-7",
            "1.5",
            "[a-",
            "(",
            "\\",
            "\n",
            "{\"a\": [1, 2.5, null]}",
            "abcabcabc",
            "0123456789012345678901234567890123456789012345678901234567890123456789",
        ]
        .iter()
        .map(|s| lit::string(s))
        .collect(),
        ArgKind::Bool => vec!["True".into(), "False".into()],
        ArgKind::Unit => vec!["()".into()],
        ArgKind::Ordering => vec!["LT".into(), "EQ".into(), "GT".into()],
        ArgKind::Array(e) => {
            let p = pool(e);
            let a = &p[0];
            let b = &p[1 % p.len()];
            let c = &p[(p.len() - 1).min(2)];
            let last = &p[p.len() - 1];
            vec![
                "[]".into(),
                format!("[{}]", a),
                format!("[{}, {}, {}]", a, b, c),
                format!("[{}, {}, {}, {}, {}]", last, b, b, a, c),
            ]
        }
        ArgKind::Option(e) => {
            let p = pool(e);
            vec!["None".into(), format!("(Some {})", p[0]), format!("(Some {})", p[p.len() - 1])]
        }
        ArgKind::Fun(args, ret) => {
            let params = args.iter().map(|_| "_").collect::<Vec<_>>().join(" ");
            let rp = pool(ret);
            let mut v = vec![format!("(\\{} -> {})", params, rp[0])];
            if rp.len() > 1 {
                v.push(format!("(\\{} -> {})", params, rp[rp.len() - 1]));
            }
            if args.len() == 1 && (args[0] == **ret || **ret == ArgKind::Generic) {
                v.push("(\\x -> x)".into());
            }
            v.push(format!("(\\{} -> error \"cb\")", params));
            v
        }
    }
}

fn random_arg(k: &ArgKind, t: &mut Tape) -> String {
    match k {
        ArgKind::Int | ArgKind::Generic => {
            let w = t.pick(4);
            let raw = t.u64() as i64;
            lit::int(match w {
                0 => raw % 10,
                1 => raw % 1000,
                2 => raw >> 20,
                _ => raw,
            })
        }
        ArgKind::Byte => lit::byte(t.pick(256) as u8),
        ArgKind::Float => lit::float(f64::from_bits(t.u64())),
        ArgKind::Char => {
            let c = match t.pick(3) {
                0 => t.pick(128) as u32,
                1 => t.pick(0x3000) as u32,
                _ => t.pick(0x110000) as u32,
            };
            let c = char::from_u32(c).unwrap_or('x');
            if c == '\0' {
                lit::chr('x')
            } else {
                lit::chr(c)
            }
        }
        ArgKind::Str => {
            let n = t.pick(12);
            let mut s = String::new();
            for _ in 0..n {
                let c = match t.pick(4) {
                    0 => (b'a' + t.pick(26) as u8) as char,
                    1 => (b' ' + t.pick(95) as u8) as char,
                    2 => char::from_u32(0xA0 + t.pick(0x500) as u32).unwrap_or('x'),
                    _ => char::from_u32(0x1F600 + t.pick(40) as u32).unwrap_or('x'),
                };
                s.push(c);
            }
            lit::string(&s)
        }
        ArgKind::Array(e) => {
            let n = t.pick(6);
            let xs: Vec<String> = (0..n).map(|_| random_arg(e, t)).collect();
            format!("[{}]", xs.join(", "))
        }
        ArgKind::Option(e) => {
            if t.chance(1, 2) {
                format!("(Some {})", random_arg(e, t))
            } else {
                "None".into()
            }
        }
        other => {
            let p = pool(other);
            t.choose(&p).clone()
        }
    }
}

fn field_path(path: &str) -> String {
    path.split('.')
        .map(|seg| {
            let ident = seg
                .chars()
                .all(|c| c.is_alphanumeric() || c == '_' || c == '\'');
            if ident || seg.is_empty() {
                seg.to_string()
            } else {
                format!("({})", seg)
            }
        })
        .collect::<Vec<_>>()
        .join(".")
}

fn call_expr(f: &PrimFn, args: &[String]) -> String {
    format!(
        "let m = import! {}\nm.{} {}",
        f.module,
        field_path(&f.path),
        args.join(" ")
    )
}

fn call_case(f: &PrimFn, args: &[String], classes: &[String]) -> Value {
    json!({
        "k": "call",
        "f": f.name(),
        "expr": call_expr(f, args),
        "io": f.io,
        "cls": classes.join("|"),
    })
}

const BATTERY: &[(&str, &str)] = &[
    ("1 + 2 * 3", "7"),
    (
        "let s = import! std.string.prim\ns.len (s.append \"ab\" \"cd\")",
        "4",
    ),
    (
        "let f x y = { a = x, b = y }\nlet r = f 1 \"q\"\nmatch Some r.a with\n| Some v -> v + 41\n| None -> 0",
        "42",
    ),
];

struct Vms {
    plain: RootedThread,
    io: RootedThread,
}

fn vms(ctx: &mut WorkerCtx) -> &mut Vms {
    if ctx.state.is_none() {
        let plain = gl::new_vm(Settings::default());
        let io = gl::new_vm(Settings {
            run_io: true,
            ..Settings::default()
        });
        ctx.state = Some(Box::new(Vms { plain, io }));
    }
    ctx.state.as_mut().unwrap().downcast_mut::<Vms>().unwrap()
}

fn outcome_json(o: &Outcome) -> Value {
    serde_json::to_value(o).unwrap()
}

fn run_battery(vm: &gluon::Thread) -> Vec<String> {
    let mut bad = vec![];
    for (src, want) in BATTERY {
        match gl::run(vm, "battery", src) {
            Outcome::Value { val, .. } if val.show() == *want => {}
            other => bad.push(format!("`{}` gave {:?}, expected {}", src, other, want)),
        }
    }
    bad
}

impl Property for C06 {
    fn id(&self) -> &'static str {
        "C06"
    }
    fn plan(&self, tier: Tier) -> Plan {
        Plan {
            random_cases: tier.pick(6000, 150_000),
            tape_len: 200,
            watchdog_s: 60,
            worker_recycle: 300,
            ..Plan::default()
        }
    }
    fn fixed_cases(&self, tier: Tier) -> Vec<Value> {
        let cap = tier.pick(250usize, 4000usize);
        let mut out = vec![];
        // every module imported alone, first thing, on a fresh VM
        for m in MODULES {
            out.push(json!({"k": "import", "f": format!("import! {}", m), "m": m}));
        }
        for f in &table().fns {
            let pools: Vec<Vec<String>> = f.args.iter().map(pool).collect();
            let product: usize = pools.iter().map(|p| p.len()).product::<usize>().max(1);
            let n = product.min(cap);
            for i in 0..n {
                let mut idx = if product <= cap {
                    i
                } else {
                    // evenly spread, deterministic
                    ((i as u128 * product as u128) / n as u128) as usize
                };
                let mut args = vec![];
                let mut classes = vec![];
                for p in &pools {
                    let j = idx % p.len();
                    idx /= p.len();
                    args.push(p[j].clone());
                    classes.push(format!("p{}", j));
                }
                out.push(call_case(f, &args, &classes));
            }
        }
        out
    }
    fn exhaustive_note(&self, tier: Tier) -> Option<String> {
        let t = table();
        Some(format!(
            "every function-typed field of {} std modules whose argument types are in the pools ({} functions; {} skipped, listed under assumptions) x boundary-pool products, complete when the product is <= {} and evenly strided otherwise",
            MODULES.len(),
            t.fns.len(),
            t.skipped.len(),
            tier.pick(250, 4000)
        ))
    }
    fn gen(&self, t: &mut Tape, _tier: Tier) -> Value {
        let tab = table();
        if t.chance(1, 8) {
            // history: interleaving of calls (many of which fail) on one VM
            let n = 3 + t.pick(18);
            let det: Vec<&PrimFn> = tab.fns.iter().filter(|f| f.deterministic && !f.io).collect();
            let mut steps = vec![];
            for _ in 0..n {
                let f = det[t.pick(det.len())];
                let args: Vec<String> = f
                    .args
                    .iter()
                    .map(|k| {
                        if t.chance(2, 3) {
                            let p = pool(k);
                            t.choose(&p).clone()
                        } else {
                            random_arg(k, t)
                        }
                    })
                    .collect();
                steps.push(json!({"f": f.name(), "expr": call_expr(f, &args)}));
            }
            return json!({"k": "hist", "steps": steps});
        }
        let f = &tab.fns[t.pick(tab.fns.len())];
        let mut args = vec![];
        let mut classes = vec![];
        for k in &f.args {
            if t.chance(1, 2) {
                let p = pool(k);
                let j = t.pick(p.len());
                args.push(p[j].clone());
                classes.push(format!("p{}", j));
            } else {
                let a = random_arg(k, t);
                classes.push(format!("r{:x}", fnv(a.as_bytes()) & 0xff));
                args.push(a);
            }
        }
        call_case(f, &args, &classes)
    }
    fn exec(&self, ctx: &mut WorkerCtx, case: &Value) -> Value {
        match case["k"].as_str().unwrap_or("") {
            "call" => {
                let v = vms(ctx);
                let vm = if case["io"].as_bool().unwrap_or(false) {
                    &v.io
                } else {
                    &v.plain
                };
                let expr = case["expr"].as_str().unwrap();
                let s0 = gl::stack_shape(vm);
                let out = gl::run(vm, "c06", expr);
                let s1 = gl::stack_shape(vm);
                let battery = match &out {
                    Outcome::Fail { .. } => run_battery(vm),
                    _ => vec![],
                };
                json!({"out": outcome_json(&out), "s0": [s0.0, s0.1], "s1": [s1.0, s1.1], "battery": battery})
            }
            "import" => {
                let vm = gl::new_vm(Settings::default());
                let out = gl::run(&vm, "c06", &format!("let _ = import! {}\n1", case["m"].as_str().unwrap()));
                let battery = run_battery(&vm);
                json!({"out": outcome_json(&out), "battery": battery})
            }
            "hist" => {
                let steps = case["steps"].as_array().unwrap();
                let vm = gl::new_vm(Settings::default());
                let child = vm.new_thread().expect("child thread");
                // warm up so that first-evaluation residue is not counted
                let _ = gl::run(&child, "warm", "let s = import! std.string.prim\n1 + s.len \"ab\"");
                let mut same = vec![];
                for s in steps {
                    same.push(outcome_json(&gl::run(&child, "c06", s["expr"].as_str().unwrap())));
                }
                // the first pass loads modules (reachable, not garbage); reclamation is judged
                // on identical later passes
                child.collect();
                let m0 = child.allocated_memory();
                let mut repeat_differs = None;
                let mut mems = vec![];
                for _pass in 0..2 {
                    for (i, s) in steps.iter().enumerate() {
                        let o = outcome_json(&gl::run(&child, "c06", s["expr"].as_str().unwrap()));
                        if o != same[i] && repeat_differs.is_none() {
                            repeat_differs = Some(json!({"step": i, "first": same[i], "again": o}));
                        }
                    }
                    child.collect();
                    mems.push(child.allocated_memory());
                }
                let shape = gl::stack_shape(&child);
                let m1 = *mems.iter().max().unwrap();
                let battery = run_battery(&child);
                let mut fresh = vec![];
                for s in steps {
                    let vm2 = gl::new_vm(Settings::default());
                    let c2 = vm2.new_thread().expect("child thread");
                    fresh.push(outcome_json(&gl::run(&c2, "c06", s["expr"].as_str().unwrap())));
                }
                json!({"same": same, "fresh": fresh, "m0": m0, "m1": m1, "repeat_differs": repeat_differs, "shape": [shape.0, shape.1], "battery": battery})
            }
            _ => json!({"__harness_error": "unknown case kind"}),
        }
    }
    fn judge(&self, case: &Value, obs: &Obs, kf: &KnownFindings) -> Judged {
        let mut j = Judged::pass();
        let kind = case["k"].as_str().unwrap_or("");
        let fname = case["f"].as_str().unwrap_or("").to_string();
        let feats: Vec<String> = if kind == "call" || kind == "import" {
            vec![fname.clone()]
        } else {
            case["steps"]
                .as_array()
                .map(|a| a.iter().map(|s| s["f"].as_str().unwrap_or("").to_string()).collect())
                .unwrap_or_default()
        };
        let v = match obs {
            Obs::Ok(v) => v,
            Obs::TimedOut | Obs::Hung { .. } => {
                j.verdict = Verdict::Inconclusive(format!("watchdog: {}", fname));
                return j;
            }
            Obs::Panicked { msg, loc } => {
                let text = format!("{} at {}", msg, loc);
                j.verdict = match kf.matches("C06", "panic", &text, &feats) {
                    Some(id) => Verdict::Known(id),
                    None => Verdict::Violation(format!(
                        "host panic while evaluating a script: {}\n{}",
                        text,
                        case_text(case)
                    )),
                };
                return j;
            }
            Obs::Died { status, tail } => {
                let text = format!("{} {}", status, tail);
                j.verdict = match kf.matches("C06", "died", &text, &feats) {
                    Some(id) => Verdict::Known(id),
                    None => Verdict::Violation(format!(
                        "host process died ({}) while evaluating a script\n{}\n--- stderr tail ---\n{}",
                        status,
                        case_text(case),
                        last_lines(tail, 6)
                    )),
                };
                return j;
            }
        };
        if kind == "import" {
            let out: Outcome = serde_json::from_value(v["out"].clone()).unwrap();
            if !matches!(out, Outcome::Value { .. }) {
                j.classes.push("import_failed".into());
            }
            if let Some(b) = v["battery"].as_array() {
                if !b.is_empty() {
                    j.verdict = Verdict::Violation(format!("after {} the VM fails the probe battery: {}", fname, b[0]));
                    return j;
                }
            }
            j.nontrivial.push(fnv(fname.as_bytes()));
        } else if kind == "call" {
            let out: Outcome = serde_json::from_value(v["out"].clone()).unwrap();
            let failed = matches!(out, Outcome::Fail { .. });
            match &out {
                Outcome::Fail { class, msg }
                    if class == "typecheck" || class == "parse" || class.starts_with("multiple") || class == "macro" =>
                {
                    j.verdict = Verdict::Inconclusive(format!(
                        "generator produced a rejected call for {}: {}",
                        fname,
                        msg.lines().next().unwrap_or("")
                    ));
                    j.classes.push("rejected_call".into());
                    return j;
                }
                Outcome::BadShape { .. } => j.classes.push("bad_shape_info".into()),
                Outcome::Fail { class, .. } => j.classes.push(format!("fail:{}", class)),
                Outcome::Value { .. } => j.classes.push("value".into()),
            }
            if v["s0"] != v["s1"] && !failed {
                // the property speaks of failed runs only; growth after a successful run is
                // reported as information
                j.classes.push("info_stack_growth_after_success".into());
            }
            if v["s0"] != v["s1"] && failed {
                j.verdict = Verdict::Violation(format!(
                    "stack not restored after evaluation: (frames, len) {} -> {}\n{}",
                    v["s0"],
                    v["s1"],
                    case_text(case)
                ));
                return j;
            }
            if let Some(b) = v["battery"].as_array() {
                if !b.is_empty() {
                    j.verdict = Verdict::Violation(format!(
                        "after a failed evaluation the VM no longer evaluates the probe battery correctly: {}\n{}",
                        b[0], case_text(case)
                    ));
                    return j;
                }
            }
            let cls = case["cls"].as_str().unwrap_or("");
            // non-trivial: (function, boundary classes) pairs; failed calls are followed by the
            // battery on the same VM
            j.nontrivial
                .push(fnv(format!("{}#{}#{}", fname, cls, failed).as_bytes()));
        } else {
            let same = v["same"].as_array().cloned().unwrap_or_default();
            let fresh = v["fresh"].as_array().cloned().unwrap_or_default();
            let mut nfail = 0;
            for (i, (a, b)) in same.iter().zip(fresh.iter()).enumerate() {
                if a.get("Fail").is_some() {
                    nfail += 1;
                }
                if a != b {
                    j.verdict = Verdict::Violation(format!(
                        "step {} of a history evaluates differently on the long-lived VM and on a fresh VM\n long-lived: {}\n fresh: {}\n{}",
                        i, a, b, case_text(case)
                    ));
                    return j;
                }
            }
            if v["shape"] != json!([1, 0]) && v["shape"] != json!([0, 0]) {
                j.classes.push(format!("hist_shape:{}", v["shape"]));
            }
            if let Some(b) = v["battery"].as_array() {
                if !b.is_empty() {
                    j.verdict = Verdict::Violation(format!(
                        "after a history with failures the VM no longer evaluates the probe battery correctly: {}\n{}",
                        b[0], case_text(case)
                    ));
                    return j;
                }
            }
            if !v["repeat_differs"].is_null() {
                j.verdict = Verdict::Violation(format!(
                    "a step of a history evaluates differently when the history is repeated on the same VM: {}\n{}",
                    v["repeat_differs"], case_text(case)
                ));
                return j;
            }
            let m0 = v["m0"].as_u64().unwrap_or(0);
            let m1 = v["m1"].as_u64().unwrap_or(0);
            if m1 > m0 {
                j.verdict = Verdict::Violation(format!(
                    "memory of the thread is not reclaimed: {} bytes after the first pass of the history + collect, {} after repeating it + collect\n{}",
                    m0, m1, case_text(case)
                ));
                return j;
            }
            j.classes.push("history".into());
            j.evals = same.len() as u64 * 4;
            if nfail > 0 && same.len() > 1 {
                j.nontrivial
                    .push(fnv(serde_json::to_string(&case["steps"]).unwrap().as_bytes()));
                j.classes.push("history_with_failure".into());
            }
        }
        j
    }
    fn rule(&self) -> String {
        "cases: (a) enumerated calls of std primitives with boundary-pool arguments, (b) generated calls mixing pool and random arguments, (c) generated histories of 3-20 calls on one VM compared step by step with fresh VMs. Non-trivial = distinct (function, argument boundary classes, failed?) triples, and distinct histories containing at least one failed evaluation followed by another evaluation".into()
    }
    fn assumptions(&self) -> Vec<String> {
        let t = table();
        let mut v = vec![
            "primitives on the deny list are not called (they block, spawn processes, or modify the file system / environment)".to_string(),
            format!("deny list: {:?}", DENY),
            "a time-out of the per-case watchdog is inconclusive, never a violation".into(),
            "values returned by primitives whose shape disagrees with their type are counted (class bad_shape_info) but judged under C02".into(),
        ];
        v.push(format!("skipped functions ({}): {}", t.skipped.len(), t.skipped.join("; ")));
        v
    }
    fn describe(&self, case: &Value, obs: &Obs) -> Value {
        json!({"case": case, "obs": obs.to_json()})
    }
}

fn case_text(case: &Value) -> String {
    if case["k"] == "import" {
        format!("program (fresh VM): {}", case["f"].as_str().unwrap_or(""))
    } else if case["k"] == "call" {
        format!("call: {}", case["expr"].as_str().unwrap_or(""))
    } else {
        let mut s = String::from("history:\n");
        for st in case["steps"].as_array().cloned().unwrap_or_default() {
            s.push_str(&format!("  {}\n", st["expr"].as_str().unwrap_or("").replace('\n', " in ")));
        }
        s
    }
}

pub fn last_lines(s: &str, n: usize) -> String {
    let ls: Vec<&str> = s.lines().collect();
    ls[ls.len().saturating_sub(n)..].join("\n")
}

#[allow(dead_code)]
fn unused(_: BTreeMap<u8, u8>) {}

//! C02 — type soundness: programs the checker accepts never go wrong, under every setting.
use std::collections::BTreeMap;

use gluon::{RootedThread, ThreadExt};
use serde_json::{json, Value};

use crate::engine::*;
use crate::gen::ast::{Program, Ty};
use crate::gen::mutate::mutate;
use crate::gen::print::{print_program, print_ty};
use crate::gen::prog::{gen_program, GenCfg};
use crate::gl::{self, Outcome, Settings};
use crate::props::c01::style_from;
use crate::props::common::*;
use crate::tape::{fnv, Tape};

pub struct C02;

const NO_PRELUDE_HEADER: &str = "let { Bool, Option } = import! std.types\nlet { error } = import! std.prim\n";

/// messages with which the VM complains about a value of the wrong shape / internal failures
const SHAPE_COMPLAINTS: &[&str] = &[
    "Cannot call",
    "GetOffset on",
    "GetField on",
    "Op TestTag",
    "Op Split",
    "ICE",
    "Stack push out of bounds",
    "does not exist",
    "Unexpected error calling function",
    "Expected",
    "Attempted to",
    "Invalid",
];

fn module_sources(case: &Value) -> Vec<(String, String)> {
    case["modules"]
        .as_array()
        .map(|a| {
            a.iter()
                .map(|m| (m["name"].as_str().unwrap_or("").to_string(), m["src"].as_str().unwrap_or("").to_string()))
                .collect()
        })
        .unwrap_or_default()
}

impl Property for C02 {
    fn id(&self) -> &'static str {
        "C02"
    }
    fn plan(&self, tier: Tier) -> Plan {
        Plan {
            random_cases: tier.pick(10_000, 250_000),
            tape_len: tier.pick(320, 700),
            watchdog_s: 60,
            worker_recycle: 400,
            ..Plan::default()
        }
    }
    fn gen(&self, t: &mut Tape, tier: Tier) -> Value {
        let style = style_from(t);
        let bits = t.pick(if tier == Tier::Thorough { 32 } else { 16 }) as u32;
        let settings = Settings::from_bits(bits);
        let kind = t.pick(10);
        let cfg = GenCfg {
            max_size: tier.pick(36, 80),
            hash_only: !settings.prelude || t.chance(1, 4),
            allow_fun_result: true,
            avoid: known().avoided("C02"),
            ..GenCfg::default()
        };
        let header = if settings.prelude { "" } else { NO_PRELUDE_HEADER };
        if kind == 9 && t.chance(1, 3) {
            // (e) rigid type variable templates: a value of an outer rigid type variable is
            // passed off at an inner quantified one (same or different name, with or without a
            // type alias in between).  All of them are ill typed; what matters is that an
            // accepted one does not go wrong.
            let src = format!("{}{}", header, rigid_template(t));
            return json!({"k": "mutant", "src": src, "bits": bits, "io": false, "features": ["rigid_variable_template"]});
        }
        if kind == 9 && t.chance(1, 2) {
            // (d) row polymorphism templates; template 4 is ill typed in HM (a correct checker
            // rejects it), the others have reference outcomes
            let prog = rowpoly_program(t);
            let src = print_program(&prog, style, header);
            let typed = !prog.features.iter().any(|f| f == "rowpoly_template_4");
            return json!({"k": if typed { "typed" } else { "mutant" }, "prog": prog, "src": src, "bits": bits, "io": false, "features": prog.features});
        }
        if kind < 4 {
            // (a) well typed by construction, some setting vector
            let prog = gen_program(t, cfg);
            let mut src = print_program(&prog, style, header);
            let io = t.chance(1, 5);
            if io {
                // the same program as an IO action
                src = wrap_io(&prog, style, header);
            }
            json!({"k": "typed", "prog": prog, "src": src, "bits": bits, "io": io})
        } else if kind < 8 {
            // (b) mutant
            let mut prog = gen_program(t, cfg);
            let kinds = mutate(&mut prog, t, 3);
            let src = print_program(&prog, style, header);
            json!({"k": "mutant", "src": src, "bits": bits, "mutations": kinds, "features": prog.features})
        } else {
            // (c) modules: each exports a record; main destructures the imports
            let nmods = 1 + t.pick(3);
            let mut modules = vec![];
            let mut main_header = String::from(header);
            let mut outer: Vec<(String, Ty)> = vec![];
            for i in 0..nmods {
                let mcfg = GenCfg {
                    max_size: 24,
                    hash_only: !settings.prelude || t.chance(1, 3),
                    allow_fun_result: true,
                    allow_fail: false,
                    no_decls: true,
                    avoid: known().avoided("C02"),
                    ..GenCfg::default()
                };
                let m = gen_program(t, mcfg);
                outer.push((format!("imported{}", i), m.ty.clone()));
                let name = format!("vmod{}", i);
                let msrc = print_program(&m, style_from(t), header);
                // main sees the module's value under a name, with its type known to the generator
                main_header.push_str(&format!("let imported{} = import! {}\n", i, name));
                modules.push(json!({"name": name, "src": msrc, "ty": print_ty(&m.ty, &m.decls)}));
            }
            let prog = crate::gen::prog::gen_program_with(t, cfg, &outer);
            let src = print_program(&prog, style, &main_header);
            json!({"k": "modules", "prog": prog, "src": src, "bits": bits, "modules": modules})
        }
    }
    fn exec(&self, ctx: &mut WorkerCtx, case: &Value) -> Value {
        if ctx.state.is_none() {
            ctx.state = Some(Box::new(BTreeMap::<u32, RootedThread>::new()));
        }
        let bits = case["bits"].as_u64().unwrap_or(0) as u32;
        let mods = module_sources(case);
        let fresh;
        let vm: &RootedThread = if mods.is_empty() {
            let map = ctx.state.as_mut().unwrap().downcast_mut::<BTreeMap<u32, RootedThread>>().unwrap();
            map.entry(bits).or_insert_with(|| gl::new_vm(Settings::from_bits(bits)))
        } else {
            fresh = gl::new_vm(Settings::from_bits(bits));
            &fresh
        };
        gl::apply_settings(vm, Settings::from_bits(bits));
        let mut module_errors = vec![];
        for (name, src) in &mods {
            if let Err(e) = vm.load_script(name, src) {
                module_errors.push(format!("{}: {}", name, gl::classify(&e).0));
            }
        }
        let _ = gl::take_host_log();
        let out = gl::run(vm, "c02", case["src"].as_str().unwrap());
        let log = gl::take_host_log();
        json!({"out": serde_json::to_value(&out).unwrap(), "log": log_to_json(&log), "module_errors": module_errors})
    }
    fn judge(&self, case: &Value, obs: &Obs, kf: &KnownFindings) -> Judged {
        let mut j = Judged::pass();
        let kind = case["k"].as_str().unwrap_or("");
        let src = case["src"].as_str().unwrap_or("");
        let bits = case["bits"].as_u64().unwrap_or(0);
        let prog: Option<Program> = serde_json::from_value(case["prog"].clone()).ok();
        let mut feats: Vec<String> = prog.as_ref().map(|p| p.features.clone()).unwrap_or_default();
        if let Some(fs) = case["features"].as_array() {
            feats.extend(fs.iter().filter_map(|f| f.as_str().map(|s| s.to_string())));
        }
        feats.push(format!("kind:{}", kind));
        let show = || {
            let mut s = format!("settings {:?}\n", Settings::from_bits(bits as u32));
            for (n, m) in module_sources(case) {
                s.push_str(&format!("--- module {} ---\n{}\n", n, m));
            }
            s.push_str(&format!("--- program ---\n{}", src));
            s
        };
        j.classes.push(format!("kind:{}", kind));
        let v = match obs {
            Obs::Ok(v) => v,
            Obs::TimedOut => {
                j.verdict = Verdict::Inconclusive("watchdog".into());
                return j;
            }
            other => {
                let (k, text) = match other {
                    Obs::Panicked { msg, loc } => ("panic", format!("{} at {}", msg, loc)),
                    Obs::Died { status, tail } => ("died", format!("{} {}", status, tail)),
                    _ => ("", String::new()),
                };
                j.verdict = match kf.matches("C02", k, &text, &feats) {
                    Some(id) => Verdict::Known(id),
                    None => Verdict::Violation(format!(
                        "an accepted program (or the attempt to check it) panicked or killed the host: {}\n{}",
                        other.to_json(),
                        show()
                    )),
                };
                return j;
            }
        };
        let out: Outcome = serde_json::from_value(v["out"].clone()).unwrap();
        if is_front_end_failure(&out).is_some() {
            j.classes.push(format!("rejected:{}", kind));
            if kind == "typed" || kind == "modules" {
                // generator contract: well typed by construction
                j.classes.push("typed_program_rejected".into());
                if let Some(e) = is_front_end_failure(&out) {
                    j.verdict = Verdict::Inconclusive(format!("generated program rejected: {}\n{}", e, show()));
                }
            }
            return j;
        }
        j.classes.push(format!("accepted:{}", kind));
        // A record VALUE whose reported type is an open row (`forall a . { x : Int | a }`): the
        // symptom of KF-C02-01 (an open row unified with a closed record stays open and keeps the
        // open row's field order)
        {
            let ty_text = match &out {
                Outcome::Value { ty, .. } | Outcome::BadShape { ty, .. } => ty.replace('\n', " "),
                _ => String::new(),
            };
            let t = ty_text.trim();
            if t.starts_with("forall") {
                if let Some(p) = t.find(" . ") {
                    let body = t[p + 3..].trim();
                    if body.starts_with('{') && body.ends_with('}') && body.rsplit('|').next().map(|x| x.trim().trim_end_matches('}').trim().chars().all(|c| c.is_alphanumeric())).unwrap_or(false) && body.contains('|') {
                        feats.push("open_row_in_result_record_type".into());
                    }
                }
            }
        }
        match &out {
            Outcome::BadShape { why, ty } => {
                let text = format!("{} (type {})", why, ty);
                j.verdict = match kf.matches("C02", "wrong_value", &text, &feats) {
                    Some(id) => Verdict::Known(id),
                    None => Verdict::Violation(format!(
                        "the returned value does not have the shape of the type the checker reported: {}\n{}",
                        text,
                        show()
                    )),
                };
                return j;
            }
            Outcome::Fail { class, msg } => {
                let language_failure = class == "error"
                    || (class == "vm_message" && msg == "Arithmetic overflow")
                    || class == "stack_overflow"
                    || class == "out_of_memory";
                let complaint = SHAPE_COMPLAINTS.iter().any(|c| msg.contains(c));
                if !language_failure || (class == "vm_message" && complaint) {
                    let text = format!("[{}] {}", class, msg);
                    j.verdict = match kf.matches("C02", "went_wrong", &text, &feats) {
                        Some(id) => Verdict::Known(id),
                        None => Verdict::Violation(format!(
                            "an accepted program went wrong at run time: {}\n{}",
                            text.lines().take(5).collect::<Vec<_>>().join(" / "),
                            show()
                        )),
                    };
                    return j;
                }
            }
            Outcome::Value { .. } => {}
        }
        // unmutated programs also have a reference outcome: it must not depend on the settings
        if kind == "typed" && !case["io"].as_bool().unwrap_or(false) {
            if let Some(p) = &prog {
                let (exp, log, _) = reference(p);
                let comparable = !matches!(
                    exp,
                    Expected::Fail(crate::gen::eval::Failure::Budget) | Expected::Fail(crate::gen::eval::Failure::Stuck(_))
                );
                let optimize = Settings::from_bits(bits as u32).optimize;
                let overflow_skip = optimize
                    && exp == Expected::Fail(crate::gen::eval::Failure::Overflow)
                    && !matches!(&out, Outcome::Fail { class, msg } if class == "vm_message" && msg == "Arithmetic overflow");
                if comparable && !overflow_skip && !has_fun(&p.ty) {
                    if let Err(why) = agree(&exp, &out) {
                        j.verdict = match kf.matches("C02", "not_equal", &why, &feats) {
                            Some(id) => Verdict::Known(id),
                            None => Verdict::Violation(format!("under this setting vector the outcome differs from the reference: {}\n{}", why, show())),
                        };
                        return j;
                    }
                    if log != log_from_json(&v["log"]) {
                        j.verdict = Verdict::Violation(format!(
                            "under this setting vector the host calls differ from the reference: {:?} vs {:?}\n{}",
                            log,
                            log_from_json(&v["log"]),
                            show()
                        ));
                        return j;
                    }
                }
            }
        }
        let nontrivial = kind != "typed" || bits != 0;
        if nontrivial {
            j.nontrivial.push(fnv(src.as_bytes()) ^ bits.wrapping_mul(0x9E3779B97F4A7C15));
        }
        j.classes.push(format!("settings:{:02}", bits));
        j
    }
    fn rule(&self) -> String {
        "cases: (a) programs well typed by construction (40%), also wrapped as IO actions, (b) the same programs after 1-3 random AST mutations (40%; most are rejected by the checker, counted), (c) main programs importing 1-3 generated modules loaded with load_script (20%); each under a setting vector drawn from implicit_prelude x optimize x emit_debug_info x run_io (x full_metadata in thorough). Oracle: if the front end accepts, the run ends in a value whose shape matches the reported type or in a language failure (error, unmatched pattern, arithmetic overflow, host failure), never a panic, process death, shape complaint or mis-shaped value. Non-trivial = accepted mutants, module cases, and any case under a non-default setting vector; distinct by (source, settings)".into()
    }
    fn assumptions(&self) -> Vec<String> {
        vec![
            "soundness is judged on what the run returns to the host (error class and message) and on a type-guided walk of the returned value".into(),
            "without the implicit prelude the generated programs import Bool/Option/error explicitly and use only #-primitives".into(),
        ]
    }
    fn describe(&self, case: &Value, obs: &Obs) -> Value {
        json!({"kind": case["k"], "bits": case["bits"], "src": case["src"], "modules": case["modules"], "mutations": case["mutations"], "obs": obs.to_json()})
    }
}

/// Row-polymorphic templates (functions over records without annotations): projection and
/// record update through open rows, used at several record shapes.
fn rowpoly_program(t: &mut Tape) -> Program {
    use crate::gen::ast::*;
    let names = ["a", "b", "c", "x", "y", "z", "w", "k"];
    let mut pool: Vec<&str> = names.to_vec();
    let mut fresh_field = |t: &mut Tape, pool: &mut Vec<&str>| -> String {
        let i = t.pick(pool.len());
        pool.remove(i).to_string()
    };
    let scalar = |t: &mut Tape| -> (Ty, Tm) {
        match t.pick(4) {
            0 => (Ty::Int, Tm::Lit(Lit::Int(t.pick(100) as i64))),
            1 => (Ty::Str, Tm::Lit(Lit::Str(["p", "q", "rs"][t.pick(3)].to_string()))),
            2 => (Ty::Float, Tm::Lit(Lit::Float((t.pick(8) as f64 * 0.5).to_bits()))),
            _ => (Ty::Byte, Tm::Lit(Lit::Byte(t.pick(200) as u8))),
        }
    };
    let var = |s: &str| Tm::Var(s.to_string());
    let letv = |name: &str, params: Vec<&str>, body: Tm, rest: Tm| {
        Tm::Let(
            Box::new(FunBind { name: name.to_string(), params: params.iter().map(|s| s.to_string()).collect(), ty: None, body }),
            Box::new(rest),
        )
    };
    // a base record with 1..4 fields
    let nf = 1 + t.pick(4);
    let mut base: Vec<(String, Ty, Tm)> = vec![];
    for _ in 0..nf {
        let n = fresh_field(t, &mut pool);
        let (ty, v) = scalar(t);
        base.push((n, ty, v));
    }
    let rec_lit = |fs: &[(String, Ty, Tm)]| Tm::Record(fs.iter().map(|(n, _, v)| (n.clone(), v.clone())).collect());
    let newf = fresh_field(t, &mut pool);
    let src_field = base[t.pick(base.len())].clone();
    let which = t.pick(5);
    let (body, ty): (Tm, Ty) = match which {
        0 => {
            // let f r = { new = r.src, .. r } in let q = f base in (q.new, q.<each base field>.., 5)
            let f_body = Tm::Update(vec![(newf.clone(), Tm::Proj(Box::new(var("r")), src_field.0.clone()))], Box::new(var("r")));
            // gluon's type for `f` only keeps the new field (the base's fields are not visible in
            // the result type), so only that field is observed: by projection, through a
            // pattern, and next to a local bound after the pattern (stack discipline)
            let outs = vec![
                Tm::Proj(Box::new(var("q")), newf.clone()),
                var("viapat"),
                var("zz"),
            ];
            let tys = vec![src_field.1.clone(), src_field.1.clone(), Ty::Int];
            let pat = Pat::Record(vec![(newf.clone(), Some(Pat::Var("viapat".into())))]);
            let rest = letv(
                "q",
                vec![],
                Tm::App(Box::new(var("f")), vec![rec_lit(&base)]),
                Tm::LetPat(pat, Box::new(var("q")), Box::new(letv("zz", vec![], Tm::Lit(Lit::Int(5)), Tm::Tuple(outs)))),
            );
            (letv("f", vec!["r"], f_body, rest), Ty::Tuple(tys))
        }
        1 => {
            // projection function at two record shapes
            let mut other = vec![(src_field.0.clone(), src_field.1.clone(), src_field.2.clone())];
            let extra = fresh_field(t, &mut pool);
            let (ety, ev) = scalar(t);
            if t.chance(1, 2) {
                other.insert(0, (extra, ety, ev));
            } else {
                other.push((extra, ety, ev));
            }
            let g_body = Tm::Proj(Box::new(var("r")), src_field.0.clone());
            let rest = Tm::Tuple(vec![
                Tm::App(Box::new(var("g")), vec![rec_lit(&base)]),
                Tm::App(Box::new(var("g")), vec![rec_lit(&other)]),
            ]);
            (letv("g", vec!["r"], g_body, rest), Ty::Tuple(vec![src_field.1.clone(), src_field.1.clone()]))
        }
        2 => {
            // update function at two shapes
            let (nty, nv) = scalar(t);
            let u_body = Tm::Update(vec![(newf.clone(), nv)], Box::new(var("r")));
            let other = vec![(fresh_field(t, &mut pool), Ty::Int, Tm::Lit(Lit::Int(3)))];
            let rest = Tm::Tuple(vec![
                Tm::Proj(Box::new(Tm::App(Box::new(var("u")), vec![rec_lit(&base)])), base[0].0.clone()),
                Tm::Proj(Box::new(Tm::App(Box::new(var("u")), vec![rec_lit(&other)])), other[0].0.clone()),
                Tm::Proj(Box::new(Tm::App(Box::new(var("u")), vec![rec_lit(&other)])), newf.clone()),
            ]);
            (letv("u", vec!["r"], u_body, rest), Ty::Tuple(vec![base[0].1.clone(), Ty::Int, nty]))
        }
        3 => {
            // nested: g s = (f s).new
            let f_body = Tm::Update(vec![(newf.clone(), Tm::Proj(Box::new(var("r")), src_field.0.clone()))], Box::new(var("r")));
            let g_body = Tm::Proj(Box::new(Tm::App(Box::new(var("f")), vec![var("s")])), newf.clone());
            let rest = Tm::App(Box::new(var("g")), vec![rec_lit(&base)]);
            (letv("f", vec!["r"], f_body, letv("g", vec!["s"], g_body, rest)), src_field.1.clone())
        }
        _ => {
            // a function that both projects from its argument and returns it or a closed literal:
            // let f b r = let _ = r.src in if b then r else <base literal> in (f False <base + extra>).extra
            let extra = fresh_field(t, &mut pool);
            let mut bigger = base.clone();
            bigger.push((extra.clone(), Ty::Int, Tm::Lit(Lit::Int(3))));
            let f_body = Tm::LetPat(
                Pat::Wild,
                Box::new(Tm::Proj(Box::new(var("r")), src_field.0.clone())),
                Box::new(Tm::If(Box::new(var("b")), Box::new(var("r")), Box::new(rec_lit(&base)))),
            );
            let rest = Tm::Proj(
                Box::new(Tm::App(Box::new(var("f")), vec![var("False"), rec_lit(&bigger)])),
                extra,
            );
            (letv("f", vec!["b", "r"], f_body, rest), Ty::Int)
        }
    };
    let mut p = Program { decls: vec![], body, ty, uses_host: false, features: vec![format!("rowpoly_template_{}", which)] };
    p.features.push("row_polymorphism".into());
    p
}

fn has_fun(t: &Ty) -> bool {
    !t.first_order()
}

fn wrap_io(prog: &Program, style: crate::gen::print::Style, header: &str) -> String {
    // let io_result = <program> in applicative.wrap io_result
    let mut p = prog.clone();
    let body = std::mem::replace(&mut p.body, crate::gen::ast::Tm::Unit);
    p.body = crate::gen::ast::Tm::Let(
        Box::new(crate::gen::ast::FunBind { name: "io_result".into(), params: vec![], ty: None, body }),
        Box::new(crate::gen::ast::Tm::App(
            Box::new(crate::gen::ast::Tm::Proj(Box::new(crate::gen::ast::Tm::Var("io_applicative".into())), "wrap".into())),
            vec![crate::gen::ast::Tm::Var("io_result".into())],
        )),
    );
    let h = format!("{}let io_applicative = (import! std.io).applicative\n", header);
    print_program(&p, style, &h)
}

/// see gen(): programs that confuse two rigid type variables
fn rigid_template(t: &mut Tape) -> String {
    // (witness given to the inner function, argument given to the outer one, how the result is used)
    let pairs = [("1", "\"s\""), ("\"s\"", "1"), ("1", "(\\z -> z)"), ("(\\z -> z)", "1"), ("1.5", "1"), ("1", "[1, 2]")];
    let (witness, arg) = pairs[t.pick(pairs.len())];
    let inner_var = if t.chance(2, 3) { "a" } else { "b" };
    let alias = t.pick(4);
    let (decl, boxt, wrap, unwrap): (String, String, String, String) = match alias {
        0 => ("type Box a = { value : a }\n".into(), format!("Box {}", inner_var), "{ value = x }".into(), "(inner W).value".into()),
        1 => ("type Box a = | Box a\n".into(), format!("Box {}", inner_var), "Box x".into(), "(match inner W with\n        | Box v -> v)".into()),
        2 => ("type Box a = { value : a }\ntype Bag a = { box : Box a }\n".into(), format!("Bag {}", inner_var), "{ box = { value = x } }".into(), "(inner W).box.value".into()),
        _ => (String::new(), inner_var.to_string(), "x".into(), "(inner W)".into()),
    };
    let unwrap = unwrap.replace('W', witness);
    let (res_ty, use_expr) = match t.pick(4) {
        0 => ("Int", format!("{} #Int+ 1", unwrap)),
        1 => ("Int", format!("{} 1", unwrap)),
        2 => ("String", unwrap.clone()),
        _ => ("Int", unwrap.clone()),
    };
    match t.pick(3) {
        0 | 1 => format!(
            "{decl}let outer x : a -> {res} =\n    let r = {wrap}\n    let inner y : forall {v} . {v} -> {boxt} = r\n    {use_expr}\nouter {arg}\n",
            decl = decl,
            res = res_ty,
            wrap = wrap,
            v = inner_var,
            boxt = boxt,
            use_expr = use_expr,
            arg = arg
        ),
        _ => format!(
            "{decl}let cast x : a -> {boxt} = {wrap_y}\nlet outer x : a -> {res} =\n    let inner y : forall {v} . {v} -> {boxt} = cast x\n    {use_expr}\nouter {arg}\n",
            decl = decl,
            boxt = boxt,
            wrap_y = wrap,
            res = res_ty,
            v = inner_var,
            use_expr = use_expr,
            arg = arg
        ),
    }
}

//! C07 — resource limits are enforced, tail calls run in constant stack, interrupts stop programs.
use std::sync::atomic::Ordering;

use gluon::vm::thread::ThreadInternal;
use gluon::vm::verif;
use gluon::RootedThread;
use serde_json::{json, Value};

use crate::engine::*;
use crate::gl::{self, Outcome, Settings};
use crate::tape::{fnv, Tape};

pub struct C07;

#[derive(Clone, Copy)]
struct Shape {
    name: &'static str,
    tail: bool,
    /// allocates proportionally to n
    allocating: bool,
}

const SHAPES: &[Shape] = &[
    Shape { name: "tail_direct", tail: true, allocating: false },
    Shape { name: "tail_mutual", tail: true, allocating: false },
    Shape { name: "tail_closure_per_iteration", tail: true, allocating: false },
    Shape { name: "tail_through_record_field", tail: true, allocating: false },
    Shape { name: "tail_in_match_arm", tail: true, allocating: false },
    Shape { name: "tail_in_let_body", tail: true, allocating: false },
    Shape { name: "tail_over_application", tail: true, allocating: false },
    Shape { name: "nontail_sum", tail: false, allocating: false },
    Shape { name: "nontail_mutual", tail: false, allocating: false },
    Shape { name: "nontail_list_build", tail: false, allocating: true },
    Shape { name: "tail_list_accumulate", tail: true, allocating: true },
    Shape { name: "tail_string_append", tail: true, allocating: true },
    Shape { name: "tail_array_append", tail: true, allocating: true },
    Shape { name: "tail_closure_chain", tail: true, allocating: true },
];

/// (source, expected rendering of the value)
fn program(shape: &str, n: u64) -> (String, String) {
    let n_s = n.to_string();
    let (body, expect): (String, String) = match shape {
        "tail_direct" => (
            "rec let go n acc = if n #Int< 1 then acc else go (n #Int- 1) (acc #Int+ 1)\nin\ngo __N__ 0".into(),
            n_s.clone(),
        ),
        "tail_mutual" => (
            "rec\nlet a n acc = if n #Int< 1 then acc else b (n #Int- 1) (acc #Int+ 1)\nlet b n acc = if n #Int< 1 then acc else c (n #Int- 1) (acc #Int+ 1)\nlet c n acc = if n #Int< 1 then acc else a (n #Int- 1) (acc #Int+ 1)\nin\na __N__ 0".into(),
            n_s.clone(),
        ),
        "tail_closure_per_iteration" => (
            "rec let go n = \\acc -> if n #Int< 1 then acc else go (n #Int- 1) (acc #Int+ 1)\nin\ngo __N__ 0".into(),
            n_s.clone(),
        ),
        "tail_through_record_field" => (
            "rec let go n acc =\n    let r = { step = go, pad = 0 }\n    if n #Int< 1 then acc else r.step (n #Int- 1) (acc #Int+ 1)\nin\ngo __N__ 0".into(),
            n_s.clone(),
        ),
        "tail_in_match_arm" => (
            "rec let go n acc =\n    match n #Int< 1 with\n    | True -> acc\n    | False -> go (n #Int- 1) (acc #Int+ 1)\nin\ngo __N__ 0".into(),
            n_s.clone(),
        ),
        "tail_in_let_body" => (
            "rec let go n acc =\n    let m = n #Int- 1\n    let a2 = acc #Int+ 1\n    if n #Int< 1 then acc else go m a2\nin\ngo __N__ 0".into(),
            n_s.clone(),
        ),
        "tail_over_application" => (
            "let apply f = f\nrec let go n acc = if n #Int< 1 then acc else apply go (n #Int- 1) (acc #Int+ 1)\nin\ngo __N__ 0".into(),
            n_s.clone(),
        ),
        "nontail_sum" => (
            "rec let sum n = if n #Int< 1 then 0 else 1 #Int+ sum (n #Int- 1)\nin\nsum __N__".into(),
            n_s.clone(),
        ),
        "nontail_mutual" => (
            "rec\nlet a n = if n #Int< 1 then 0 else 1 #Int+ b (n #Int- 1)\nlet b n = if n #Int< 1 then 0 else 1 #Int+ a (n #Int- 1)\nin\na __N__".into(),
            n_s.clone(),
        ),
        "nontail_list_build" => (
            "type L = | Nil | Cons Int L\nrec let build n = if n #Int< 1 then Nil else Cons n (build (n #Int- 1))\nin\nrec let len l acc =\n    match l with\n    | Nil -> acc\n    | Cons _ t -> len t (acc #Int+ 1)\nin\nlen (build __N__) 0".into(),
            n_s.clone(),
        ),
        "tail_list_accumulate" => (
            "type L = | Nil | Cons Int L\nrec let build n acc = if n #Int< 1 then acc else build (n #Int- 1) (Cons n acc)\nin\nrec let len l acc =\n    match l with\n    | Nil -> acc\n    | Cons _ t -> len t (acc #Int+ 1)\nin\nlen (build __N__ Nil) 0".into(),
            n_s.clone(),
        ),
        "tail_string_append" => (
            "let s = import! std.string.prim\nrec let go n acc = if n #Int< 1 then s.len acc else go (n #Int- 1) (s.append acc \"ab\")\nin\ngo __N__ \"\"".into(),
            (2 * n).to_string(),
        ),
        "tail_array_append" => (
            "let a = import! std.array.prim\nrec let go n acc = if n #Int< 1 then a.len acc else go (n #Int- 1) (a.append acc [n])\nin\ngo __N__ []".into(),
            n_s.clone(),
        ),
        "tail_closure_chain" => (
            "rec let go n f = if n #Int< 1 then f 0 else go (n #Int- 1) (\\x -> f (x #Int+ 1))\nin\ngo __N__ (\\x -> x)".into(),
            n_s.clone(),
        ),
        _ => ("0".into(), "0".into()),
    };
    (body.replace("__N__", &n_s), expect)
}

/// the program of a case: a fixed shape or a generated tail-context template
fn program_of(case: &Value, n: u64) -> (String, String) {
    if let Some(tpl) = case["template"].as_str() {
        let expect = if case["expect"] == "true" { "True".to_string() } else { n.to_string() };
        return (tpl.replace("__N__", &n.to_string()), expect);
    }
    program(case["shape"].as_str().unwrap_or(""), n)
}

/// A generated loop whose recursive call sits in a tail position built from nested tail contexts
/// (branches of if / match, let bodies, the right operand of `||` and `&&`, parentheses, a
/// sequence after a discarded binding), optionally spread over 2-3 mutually recursive functions.
/// Conditions depend on `n` so that nothing can be folded away; on the path taken (n >= 1) every
/// context continues into the call. Result type Int (the accumulator) or Bool (needed for `||` /
/// `&&` contexts; the base case is True).
fn gen_tail_template(t: &mut Tape) -> (String, bool, Vec<String>) {
    let nfun = 1 + t.pick(3);
    let boolean = t.chance(1, 2);
    let base = if boolean { "True" } else { "acc" };
    let names = ["go", "hop", "skip"];
    let mut used: Vec<String> = vec![];
    let mut funs: Vec<String> = vec![];
    for i in 0..nfun {
        let next = names[(i + 1) % nfun];
        let ind = |ls: Vec<String>| -> Vec<String> { ls.into_iter().map(|l| format!("    {}", l)).collect() };
        let close = |mut ls: Vec<String>, tail: &str| -> Vec<String> {
            if let Some(l) = ls.last_mut() {
                l.push_str(tail);
            }
            ls
        };
        let cat = |head: Vec<String>, rest: Vec<String>| -> Vec<String> { head.into_iter().chain(rest).collect() };
        let mut e: Vec<String> = vec![format!("{} (n #Int- 1) (acc #Int+ 1)", next)];
        let depth = 1 + t.pick(4);
        for d in 0..depth {
            let pick = t.pick(if boolean { 13 } else { 10 });
            let (name, wrapped): (&str, Vec<String>) = match pick {
                0 => ("if_else_branch", cat(vec![format!("if n #Int< 0 then {} else", base)], ind(e))),
                1 => ("if_then_branch", cat(cat(vec!["if 0 #Int< n then".to_string()], ind(e)), vec![format!("else {}", base)])),
                2 => ("match_bool_arm", cat(vec!["match 0 #Int< n with".to_string(), format!("| False -> {}", base), "| True ->".to_string()], ind(e))),
                3 => ("match_tuple_arm", cat(vec!["match (n, acc) with".to_string(), format!("| (0, _) -> {}", base), format!("| (k{}, _) ->", d)], ind(e))),
                4 => ("match_option_arm", cat(vec!["match Some n with".to_string(), format!("| None -> {}", base), format!("| Some k{} ->", d)], ind(e))),
                5 => ("let_block_body", cat(vec![format!("let k{d} = n #Int+ {d}", d = d)], e)),
                6 => ("let_tuple_pattern_body", cat(vec![format!("let (k{d}, _) = (n, {d})", d = d)], e)),
                7 => ("let_function_body", cat(vec![format!("let k{} x = acc #Int+ x", d)], e)),
                8 => ("discarded_binding_then", cat(vec!["let _ = (n, acc)".to_string()], e)),
                9 => ("record_pattern_let_body", cat(vec![format!("let {{ p{d} }} = {{ p{d} = n }}", d = d)], e)),
                10 => ("or_right_operand", close(cat(vec!["(n #Int< 0) || (".to_string()], ind(e)), ")")),
                11 => ("and_right_operand", close(cat(vec!["(0 #Int< n) && (".to_string()], ind(e)), ")")),
                _ => ("or_then_and", close(cat(vec!["(n #Int< 0) || ((0 #Int< n) && (".to_string()], ind(e)), "))")),
            };
            if !used.iter().any(|u| u == name) {
                used.push(name.to_string());
            }
            e = wrapped;
        }
        let body = ind(cat(vec![format!("if n #Int< 1 then {} else", base)], ind(e)));
        funs.push(format!("let {} n acc =\n{}", names[i], body.join("\n")));
    }
    if nfun > 1 {
        used.push(format!("mutual_{}", nfun));
    }
    let tpl = format!("rec\n{}\nin\ngo __N__ 0", funs.join("\n"));
    (tpl, boolean, used)
}

const STACK_LIMITS: &[u64] = &[0, 64, 200, 1000, 10_000];
const MEM_LIMITS: &[u64] = &[0, 2048, 16_384, 262_144, 4_194_304];
const REF_N: u64 = 50;

fn case_for(shape: &Shape, n: u64, sl: u64, ml: u64) -> Value {
    json!({"k": "limit", "shape": shape.name, "tail": shape.tail, "allocating": shape.allocating, "n": n, "stack_limit": sl, "mem_limit": ml})
}

fn run_limited(root: &RootedThread, src: &str, sl: u64, ml: u64) -> Value {
    let child = root.new_thread().expect("child");
    if ml > 0 {
        child.set_memory_limit(ml as usize);
    }
    if sl > 0 {
        child.context().set_max_stack_size(sl as u32);
    }
    verif::reset_counters();
    let out = gl::run(&child, "c07", src);
    let peak_stack = verif::PEAK_STACK.load(Ordering::Relaxed);
    let peak_frames = verif::PEAK_FRAMES.load(Ordering::Relaxed);
    let breaches = verif::LIMIT_BREACHES.load(Ordering::Relaxed);
    let over = verif::MAX_OVER_LIMIT.load(Ordering::Relaxed);
    let peak_mem = verif::PEAK_ALLOCATED.load(Ordering::Relaxed);
    json!({"out": serde_json::to_value(&out).unwrap(), "peak_stack": peak_stack, "peak_frames": peak_frames,
           "breaches": breaches, "over": over, "peak_mem": peak_mem})
}

fn kind_of(o: &Outcome) -> String {
    match o {
        Outcome::Value { val, .. } => format!("value:{}", val.show()),
        Outcome::BadShape { .. } => "bad_shape".into(),
        Outcome::Fail { class, .. } => class.clone(),
    }
}

impl Property for C07 {
    fn id(&self) -> &'static str {
        "C07"
    }
    fn plan(&self, tier: Tier) -> Plan {
        Plan {
            random_cases: tier.pick(3000, 60_000),
            tape_len: 40,
            watchdog_s: 120,
            worker_recycle: 100,
            // the worker's native stack is an ordinary 8 MiB one: exhausting it is the violation
            worker_stack: 8 << 20,
            ..Plan::default()
        }
    }
    fn fixed_cases(&self, tier: Tier) -> Vec<Value> {
        let ns: &[u64] = if tier == Tier::Quick { &[100, 1000, 10_000] } else { &[100, 1000, 10_000, 100_000] };
        let mut out = vec![];
        for shape in SHAPES {
            for &n in ns {
                for &sl in STACK_LIMITS {
                    // the memory sweep only where memory matters, plus the unlimited column
                    let mls: &[u64] = if shape.allocating { MEM_LIMITS } else { &[0, 16_384] };
                    for &ml in mls {
                        if tier == Tier::Quick && n == 10_000 && sl == 200 {
                            continue;
                        }
                        out.push(case_for(shape, n, sl, ml));
                    }
                }
            }
        }
        for delay_ms in [1u64, 5, 20, 60] {
            for shape in ["spin_tail", "spin_alloc", "spin_nontail"] {
                out.push(json!({"k": "interrupt", "shape": shape, "delay_ms": delay_ms}));
            }
        }
        out
    }
    fn exhaustive_note(&self, tier: Tier) -> Option<String> {
        Some(format!(
            "grid of {} recursion/allocation shapes x N in {} x {} stack limits x memory limits (all {} for allocating shapes), plus 12 interrupt cases",
            SHAPES.len(),
            if tier == Tier::Quick { "{1e2,1e3,1e4}" } else { "{1e2,1e3,1e4,1e5}" },
            STACK_LIMITS.len(),
            MEM_LIMITS.len()
        ))
    }
    fn gen(&self, t: &mut Tape, tier: Tier) -> Value {
        if t.chance(2, 5) {
            let (tpl, boolean, used) = gen_tail_template(t);
            let n = 1 + t.pick(tier.pick(20_000, 150_000)) as u64;
            let sl = if t.chance(1, 4) { 0 } else { 32 + t.pick(3000) as u64 };
            return json!({"k": "limit", "shape": "tail_generated", "tail": true, "allocating": false, "n": n, "stack_limit": sl, "mem_limit": 0,
                "template": tpl, "expect": if boolean { "true" } else { "n" }, "contexts": used});
        }
        let shape = &SHAPES[t.pick(SHAPES.len())];
        let n = 1 + t.pick(tier.pick(20_000, 150_000)) as u64;
        let sl = if t.chance(1, 3) { 0 } else { 16 + t.pick(5000) as u64 };
        let ml = if t.chance(1, 2) { 0 } else { 512 + t.pick(1 << 20) as u64 };
        case_for(shape, n, sl, ml)
    }
    fn exec(&self, ctx: &mut WorkerCtx, case: &Value) -> Value {
        if ctx.state.is_none() {
            let vm = gl::new_vm(Settings::default());
            let _ = gl::run(&vm, "warm", "let s = import! std.string.prim\nlet a = import! std.array.prim\n1 + 2");
            ctx.state = Some(Box::new(vm));
        }
        let root = ctx.state.as_ref().unwrap().downcast_ref::<RootedThread>().unwrap();
        if case["k"] == "interrupt" {
            let src = match case["shape"].as_str().unwrap_or("") {
                "spin_tail" => "rec let spin n = spin (if n #Int< 1000000 then n #Int+ 1 else 0)\nin\nspin 0",
                "spin_alloc" => "rec let spin n acc = spin (if n #Int< 1000000 then n #Int+ 1 else 0) { a = n, b = acc.a }\nin\nspin 0 { a = 0, b = 0 }",
                _ => "rec\nlet down n = if n #Int< 1 then 0 else 1 #Int+ down (n #Int- 1)\nlet spin n = let _ = down 200 in spin (n #Int- n)\nin\nspin 0",
            };
            let child = root.new_thread().expect("child");
            let handle = child.clone();
            let delay = case["delay_ms"].as_u64().unwrap_or(10);
            let t0 = std::time::Instant::now();
            let interrupter = std::thread::spawn(move || {
                std::thread::sleep(std::time::Duration::from_millis(delay));
                handle.interrupt();
                std::time::Instant::now()
            });
            let out = gl::run(&child, "c07", src);
            let returned = std::time::Instant::now();
            let interrupted_at = interrupter.join().unwrap();
            let after_ms = returned.saturating_duration_since(interrupted_at).as_millis() as u64;
            return json!({"out": serde_json::to_value(&out).unwrap(), "returned_after_interrupt_ms": after_ms, "total_ms": t0.elapsed().as_millis() as u64});
        }
        let shape = case["shape"].as_str().unwrap_or("");
        let n = case["n"].as_u64().unwrap_or(1);
        let (sl, ml) = (case["stack_limit"].as_u64().unwrap_or(0), case["mem_limit"].as_u64().unwrap_or(0));
        let (src, expect) = program_of(case, n);
        let main = run_limited(root, &src, sl, ml);
        let mut res = json!({"main": main, "expect": expect, "src": src});
        if case["tail"].as_bool().unwrap_or(false) {
            let (rsrc, rexpect) = program_of(case, REF_N);
            res["reference"] = run_limited(root, &rsrc, sl, ml);
            res["reference_expect"] = json!(rexpect);
        }
        res
    }
    fn judge(&self, case: &Value, obs: &Obs, kf: &KnownFindings) -> Judged {
        let mut j = Judged::pass();
        let shape = case["shape"].as_str().unwrap_or("");
        let mut feats = vec![format!("shape:{}", shape)];
        if let Some(cs) = case["contexts"].as_array() {
            for c in cs {
                feats.push(format!("tailctx:{}", c.as_str().unwrap_or("")));
            }
        }
        let show = || format!("case {}", case);
        let v = match obs {
            Obs::Ok(v) => v,
            Obs::TimedOut => {
                if case["k"] == "interrupt" {
                    j.verdict = Verdict::Violation(format!("an interrupted program did not stop within the watchdog (120 s)\n{}", show()));
                } else {
                    j.verdict = Verdict::Inconclusive("watchdog".into());
                }
                return j;
            }
            other => {
                let (kd, text) = match other {
                    Obs::Panicked { msg, loc } => ("panic", format!("{} at {}", msg, loc)),
                    Obs::Died { status, tail } => ("died", format!("{} {}", status, tail)),
                    _ => ("", String::new()),
                };
                j.verdict = match kf.matches("C07", kd, &text, &feats) {
                    Some(id) => Verdict::Known(id),
                    None => Verdict::Violation(format!(
                        "the host died or panicked (native stack exhausted?) instead of reporting a limit: {}\n{}\nprogram:\n{}",
                        other.to_json(),
                        show(),
                        program_of(case, case["n"].as_u64().unwrap_or(1)).0
                    )),
                };
                return j;
            }
        };
        if case["k"] == "interrupt" {
            let out: Outcome = serde_json::from_value(v["out"].clone()).unwrap();
            let ms = v["returned_after_interrupt_ms"].as_u64().unwrap_or(0);
            j.classes.push("interrupt".into());
            if !matches!(&out, Outcome::Fail { class, .. } if class == "interrupted") {
                j.verdict = Verdict::Violation(format!("an interrupted program ended with {:?} instead of Interrupted\n{}", out, show()));
                return j;
            }
            if ms > 2000 {
                j.verdict = Verdict::Violation(format!("the program returned {} ms after the interrupt request\n{}", ms, show()));
                return j;
            }
            j.nontrivial.push(fnv(case.to_string().as_bytes()));
            return j;
        }
        let (sl, ml) = (case["stack_limit"].as_u64().unwrap_or(0), case["mem_limit"].as_u64().unwrap_or(0));
        let n = case["n"].as_u64().unwrap_or(0);
        let main = &v["main"];
        let out: Outcome = serde_json::from_value(main["out"].clone()).unwrap();
        let expect = v["expect"].as_str().unwrap_or("");
        let src = v["src"].as_str().unwrap_or("");
        let kind = kind_of(&out);
        j.classes.push(format!("shape:{}", shape));
        for f in feats.iter().filter(|f| f.starts_with("tailctx:")) {
            j.classes.push(f.clone());
        }
        j.classes.push(format!("outcome:{}", kind.split(':').next().unwrap_or("")));
        // 1. the outcome is the value or the failure of a configured limit
        // an out-of-memory failure raised inside a primitive reaches the host as a panic-class error
        // carrying the out-of-memory message; it is accepted as "the corresponding error"
        let oom_text = matches!(&out, Outcome::Fail { class, msg } if class == "error" && msg.contains("Thread is out of memory"));
        if oom_text {
            j.classes.push("oom_reported_through_primitive".into());
        }
        let is_oom = oom_text || matches!(&out, Outcome::Fail { class, .. } if class == "out_of_memory");
        let ok = match &out {
            Outcome::Value { val, .. } => val.show() == expect,
            Outcome::Fail { class, .. } if class == "stack_overflow" => true,
            _ => is_oom && ml > 0,
        };
        if !ok {
            j.verdict = Verdict::Violation(format!(
                "outcome is neither the expected value ({}) nor the failure of a configured limit: {:?}\n{}\nprogram:\n{}",
                expect, out, show(), src
            ));
            return j;
        }
        // 2. memory accounted to the thread never exceeds the limit
        if main["breaches"].as_u64().unwrap_or(0) > 0 {
            let text = format!(
                "memory accounted to a heap exceeded its limit {} time(s), by up to {} bytes (limit {})",
                main["breaches"], main["over"], ml
            );
            let mut feats = feats.clone();
            if is_oom && main["breaches"].as_u64() == Some(1) && main["over"].as_u64().unwrap_or(0) <= 512 {
                feats.push("only_the_oom_error_message".into());
            }
            j.verdict = match kf.matches("C07", "limit_breach", &text, &feats) {
                Some(id) => Verdict::Known(id),
                None => Verdict::Violation(format!("{}\n{}\nprogram:\n{}", text, show(), src)),
            };
            return j;
        }
        // 3. tail calls: if the short run fits the limits so does the long one, in the same stack
        if case["tail"].as_bool().unwrap_or(false) {
            let r = &v["reference"];
            let rout: Outcome = serde_json::from_value(r["out"].clone()).unwrap();
            let r_ok = matches!(&rout, Outcome::Value { .. });
            let allocating = case["allocating"].as_bool().unwrap_or(false);
            if r_ok && !matches!(&out, Outcome::Value { .. }) {
                let oom_allowed = allocating && is_oom;
                // the closure chain builds a chain of n closures that is unwound non-tail at the end
                let chain_overflow = shape == "tail_closure_chain" && matches!(&out, Outcome::Fail { class, .. } if class == "stack_overflow");
                if !oom_allowed && !chain_overflow {
                    j.verdict = Verdict::Violation(format!(
                        "a tail-recursive program that completes for n = {} under these limits fails for n = {}: {:?}\n{}\nprogram:\n{}",
                        REF_N, n, out, show(), src
                    ));
                    return j;
                }
            }
            if r_ok && matches!(&out, Outcome::Value { .. }) && shape != "tail_closure_chain" {
                let (p, pr) = (main["peak_stack"].as_u64().unwrap_or(0), r["peak_stack"].as_u64().unwrap_or(0));
                if p > pr {
                    j.verdict = Verdict::Violation(format!(
                        "tail calls do not run in constant stack: peak value-stack length {} for n = {} but {} for n = {}\n{}\nprogram:\n{}",
                        p, n, pr, REF_N, show(), src
                    ));
                    return j;
                }
            }
        }
        j.evals = if case["tail"].as_bool().unwrap_or(false) { 2 } else { 1 };
        // non-trivial: a limit was approached or hit, or a long tail loop
        let peak = main["peak_stack"].as_u64().unwrap_or(0);
        let near_stack = sl > 0 && peak * 2 >= sl;
        let near_mem = ml > 0 && main["peak_mem"].as_u64().unwrap_or(0) * 2 >= ml;
        let hit = !matches!(&out, Outcome::Value { .. });
        if near_stack || near_mem || hit || (case["tail"].as_bool().unwrap_or(false) && n >= 10_000) {
            j.nontrivial.push(fnv(format!("{}|{}|{}|{}", shape, n, sl, ml).as_bytes()));
        }
        j
    }
    fn rule(&self) -> String {
        "recursion shapes {direct, mutual(3), closure per iteration, through a record field, in a match arm, in a let body, over-application} x {tail, non-tail} and allocation shapes {list build, list accumulate, string append, array append, closure chain}, depth n in 1e2..1e4 (1e5 thorough) and random n, under stack limits {default, 64, 200, 1000, 10000, random} and memory limits {default, 2 KiB .. 4 MiB, random} on a child thread; oracle: outcome = expected value or StackOverflow or (with a memory limit) OutOfMemory; no allocation leaves a heap above its limit (hook counter); a tail shape that completes for n = 50 completes for every n with the same peak value-stack length (hook); the worker (8 MiB native stack) survives; 12 interrupt cases: a spinning program interrupted from another OS thread after 1-60 ms returns Interrupted within 2 s. Non-trivial = a limit was hit or approached (peak >= 50 % of it), or a tail loop of >= 10^4 iterations; distinct by (shape, n, limits)".into()
    }
    fn assumptions(&self) -> Vec<String> {
        vec![
            "hooks H4b (peak value-stack length at frame entry, allocations above the limit) of the cargo feature `verif`".into(),
            "'promptly' for interrupts is taken as 2 s of wall clock on an otherwise idle worker; only this bound uses the clock".into(),
            "the closure-chain shape legitimately needs stack proportional to n when the chain is finally applied".into(),
        ]
    }
}

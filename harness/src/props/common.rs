//! Shared pieces for the properties that run generated programs.
use serde_json::{json, Value};

use crate::gen::ast::Program;
use crate::gen::eval::{to_val, Failure, Interp};
use crate::gl::{Outcome, Val};

pub type HostLog = Vec<(char, i64)>;

#[derive(Clone, Debug, PartialEq)]
pub enum Expected {
    Value(Val),
    Fail(Failure),
}

pub fn reference(prog: &Program) -> (Expected, HostLog, u32) {
    let mut it = Interp::new(&prog.decls);
    let r = it.run(&prog.body);
    let log = it.log.clone();
    let depth = it.max_seen_depth;
    match r {
        Ok(v) => (Expected::Value(to_val(&v)), log, depth),
        Err(f) => (Expected::Fail(f), log, depth),
    }
}

pub fn log_to_json(l: &HostLog) -> Value {
    Value::Array(l.iter().map(|(c, i)| json!([c.to_string(), i])).collect())
}

pub fn log_from_json(v: &Value) -> HostLog {
    v.as_array()
        .map(|a| {
            a.iter()
                .map(|e| (e[0].as_str().unwrap_or("?").chars().next().unwrap_or('?'), e[1].as_i64().unwrap_or(0)))
                .collect()
        })
        .unwrap_or_default()
}

/// does the gluon outcome agree with the reference outcome?  Ok(class) or Err(description)
pub fn agree(exp: &Expected, out: &Outcome) -> Result<&'static str, String> {
    match (exp, out) {
        (Expected::Value(v), Outcome::Value { val, .. }) => {
            if same_val(v, val) {
                Ok("value")
            } else {
                Err(format!("value differs: reference {} , gluon {}", v.show(), val.show()))
            }
        }
        (Expected::Fail(Failure::Error(m)), Outcome::Fail { class, msg }) if class == "error" && msg == m => Ok("error"),
        (Expected::Fail(Failure::Unmatched), Outcome::Fail { class, msg }) if class == "error" && msg == "Unmatched pattern" => Ok("unmatched"),
        (Expected::Fail(Failure::Overflow), Outcome::Fail { class, msg }) if class == "vm_message" && msg == "Arithmetic overflow" => Ok("overflow"),
        (Expected::Fail(Failure::HostFail(i)), Outcome::Fail { class, msg }) if class == "error" && *msg == format!("host failure {}", i) => Ok("host_failure"),
        (e, o) => Err(format!("reference outcome {:?}, gluon outcome {}", e, show_outcome(o))),
    }
}

pub fn show_outcome(o: &Outcome) -> String {
    match o {
        Outcome::Value { val, ty } => format!("value {} : {}", val.show(), ty.replace('\n', " ")),
        Outcome::BadShape { why, ty } => format!("value not of the shape of its type {}: {}", ty.replace('\n', " "), why),
        Outcome::Fail { class, msg } => format!("failure [{}] {}", class, msg.lines().take(6).collect::<Vec<_>>().join(" / ")),
    }
}

/// functions compare as equal (opaque); everything else structurally
pub fn same_val(a: &Val, b: &Val) -> bool {
    match (a, b) {
        (Val::Fun, Val::Fun) => true,
        (Val::Opaque, _) | (_, Val::Opaque) => true,
        (Val::Tag(n, xs), Val::Tag(m, ys)) => n == m && xs.len() == ys.len() && xs.iter().zip(ys).all(|(x, y)| same_val(x, y)),
        (Val::Record(xs), Val::Record(ys)) => {
            xs.len() == ys.len() && xs.iter().zip(ys).all(|((n, x), (m, y))| n == m && same_val(x, y))
        }
        (Val::Array(xs), Val::Array(ys)) => xs.len() == ys.len() && xs.iter().zip(ys).all(|(x, y)| same_val(x, y)),
        (x, y) => x == y,
    }
}

pub fn is_front_end_failure(o: &Outcome) -> Option<String> {
    match o {
        Outcome::Fail { class, msg }
            if class == "typecheck" || class == "parse" || class == "macro" || class.starts_with("multiple") =>
        {
            Some(format!("[{}] {}", class, msg.lines().take(8).collect::<Vec<_>>().join(" / ")))
        }
        _ => None,
    }
}

/// The same symptom anywhere inside the type of a value that contains no function: a record type
/// with a row variable (`forall a . Option { _1 : Int, _0 : Char | a }`).
pub fn open_row_inside_value_type(out: &Outcome) -> bool {
    let ty_text = match out {
        Outcome::Value { ty, .. } | Outcome::BadShape { ty, .. } => ty.replace('\n', " "),
        _ => return false,
    };
    let t = ty_text.trim();
    if !t.starts_with("forall") || t.contains("->") {
        return false;
    }
    // `| name }`
    let mut rest = t;
    while let Some(p) = rest.find('|') {
        let after = rest[p + 1..].trim_start();
        let name: String = after.chars().take_while(|c| c.is_alphanumeric() || *c == '_').collect();
        if !name.is_empty() && after[name.len()..].trim_start().starts_with('}') {
            return true;
        }
        rest = &rest[p + 1..];
    }
    false
}

/// Symptom of the recorded checker defect KF-C02-01: a record VALUE whose reported type is an open
/// row (`forall a . { x : Int | a }`).  The row stayed open when it met a closed record and keeps
/// the open row's field order, so reading the value by its type finds other fields.
pub fn open_row_result_symptom(out: &Outcome) -> bool {
    let ty_text = match out {
        Outcome::Value { ty, .. } | Outcome::BadShape { ty, .. } => ty.replace('\n', " "),
        _ => return false,
    };
    let t = ty_text.trim();
    if !t.starts_with("forall") {
        return false;
    }
    match t.find(" . ") {
        Some(p) => {
            let body = t[p + 3..].trim();
            body.starts_with('{')
                && body.ends_with('}')
                && body.contains('|')
                && body
                    .rsplit('|')
                    .next()
                    .map(|x| x.trim().trim_end_matches('}').trim().chars().all(|c| c.is_alphanumeric()))
                    .unwrap_or(false)
        }
        None => false,
    }
}

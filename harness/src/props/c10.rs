//! C10 — the formatter preserves meaning and comments and is idempotent.
use gluon::compiler_pipeline::InfixReparseable;
use gluon::ThreadExt;
use serde_json::{json, Value};

use crate::canon::g_expr;
use crate::engine::*;
use crate::gen::print::print_program;
use crate::gen::prog::{gen_program, GenCfg};
use crate::gl::{self, Settings};
use crate::props::c01::style_from;
use crate::tape::{fnv, Tape};

pub struct C10;

/// comments and literal tokens of a gluon source, in order
#[derive(Debug, Default, PartialEq)]
pub struct Lexed {
    pub comments: Vec<String>,
    pub literals: Vec<String>,
}

fn is_ident(b: u8) -> bool {
    b == b'_' || b == b'\'' || b.is_ascii_alphanumeric()
}

pub fn lex(src: &str) -> Lexed {
    let b = src.as_bytes();
    let mut out = Lexed::default();
    let mut i = 0;
    let n = b.len();
    while i < n {
        let c = b[i];
        // comments
        if c == b'/' && i + 1 < n && b[i + 1] == b'/' {
            let start = i;
            while i < n && b[i] != b'\n' && b[i] != b'\r' {
                i += 1;
            }
            out.comments.push(src[start..i].trim_end().to_string());
            continue;
        }
        if c == b'/' && i + 1 < n && b[i + 1] == b'*' {
            let start = i;
            i += 2;
            while i + 1 < n && !(b[i] == b'*' && b[i + 1] == b'/') {
                i += 1;
            }
            i = (i + 2).min(n);
            // block comments may be re-indented: compare modulo runs of whitespace
            let text: Vec<&str> = src[start..i].split_whitespace().collect();
            out.comments.push(text.join(" "));
            continue;
        }
        // raw strings r"..." r#"..."#
        if c == b'r' && i + 1 < n && (b[i + 1] == b'"' || b[i + 1] == b'#') && (i == 0 || !is_ident(b[i - 1])) {
            let start = i;
            let mut j = i + 1;
            let mut hashes = 0;
            while j < n && b[j] == b'#' {
                hashes += 1;
                j += 1;
            }
            if j < n && b[j] == b'"' {
                j += 1;
                loop {
                    if j >= n {
                        break;
                    }
                    if b[j] == b'"' {
                        let mut k = 0;
                        while k < hashes && j + 1 + k < n && b[j + 1 + k] == b'#' {
                            k += 1;
                        }
                        if k == hashes {
                            j += 1 + hashes;
                            break;
                        }
                    }
                    j += 1;
                }
                out.literals.push(src[start..j.min(n)].to_string());
                i = j.min(n);
                continue;
            }
        }
        if c == b'"' {
            let start = i;
            i += 1;
            while i < n && b[i] != b'"' {
                if b[i] == b'\\' {
                    i += 1;
                }
                i += 1;
            }
            i = (i + 1).min(n);
            out.literals.push(src[start..i].to_string());
            continue;
        }
        if c == b'\'' && (i == 0 || !is_ident(b[i - 1])) {
            let start = i;
            i += 1;
            if i < n && b[i] == b'\\' {
                i += 2;
            } else {
                // one (possibly multi-byte) character
                i += 1;
                while i < n && (b[i] & 0xC0) == 0x80 {
                    i += 1;
                }
            }
            if i < n && b[i] == b'\'' {
                i += 1;
                out.literals.push(src[start..i].to_string());
            }
            continue;
        }
        if c.is_ascii_digit() && (i == 0 || !is_ident(b[i - 1])) {
            let start = i;
            while i < n && (b[i].is_ascii_alphanumeric() || b[i] == b'_') {
                i += 1;
            }
            if i + 1 < n && b[i] == b'.' && b[i + 1].is_ascii_digit() {
                i += 1;
                while i < n && (b[i].is_ascii_alphanumeric() || b[i] == b'_') {
                    i += 1;
                }
            }
            out.literals.push(src[start..i].to_string());
            continue;
        }
        if is_ident(c) {
            while i < n && is_ident(b[i]) {
                i += 1;
            }
            continue;
        }
        i += 1;
    }
    out
}

/// Line comments of `src` that stand where the formatter is known (probed, see DESIGN.md) to look
/// for comments: directly before a `let` binding (unless that binding opens an if branch, a
/// bracket or a `rec` group) and at the end of a complete one-line `let` binding.  Comments elsewhere (match
/// arms, variants, record/array/tuple elements, if branches, after `=`/`with`, `rec`) are dropped
/// by the formatter: recorded finding KF-C10-01.
pub fn safe_comments(src: &str) -> Vec<String> {
    let lines: Vec<&str> = src.lines().collect();
    let code_of = |l: &str| -> String {
        // the part of the line in front of a line comment (generated sources never have `//`
        // inside literals; for files this is a heuristic that only makes the check weaker)
        match l.find("//") {
            Some(i) => l[..i].trim().to_string(),
            None => l.trim().to_string(),
        }
    };
    let mut out = vec![];
    for (i, l) in lines.iter().enumerate() {
        let Some(p) = l.find("//") else { continue };
        let text = l[p..].trim_end().to_string();
        let code = code_of(l);
        if code.is_empty() {
            // own-line comment: look at the next and the previous code line
            let next = lines[i + 1..].iter().map(|x| code_of(x)).find(|c| !c.is_empty()).unwrap_or_default();
            let prev = lines[..i].iter().rev().map(|x| code_of(x)).find(|c| !c.is_empty()).unwrap_or_default();
            let bad_prev = ["then", "else", "rec", ",", "[", "(", "{", "with"].iter().any(|e| prev.ends_with(e));
            if next.starts_with("let ") && !bad_prev {
                out.push(text);
            }
        } else if code.starts_with("let ")
            && !["=", "->", "with", "then", "else", "(", "[", "{", ",", "in"].iter().any(|e| code.ends_with(e))
        {
            out.push(text);
        }
    }
    out
}

fn is_subsequence(small: &[String], big: &[String]) -> bool {
    let mut it = big.iter();
    small.iter().all(|s| it.any(|b| b == s))
}

/// The second formatting pass over a tuple (expression, pattern annotation or type) that was
/// broken over several lines inserts blank lines and re-indents the continuation lines
/// (KF-C10-02).  True if `a` and `b` differ in blank lines / indentation only and `b` has such a
/// broken tuple.
fn only_tuple_whitespace(a: &str, b: &str) -> bool {
    let norm = |s: &str| -> Vec<String> { s.lines().map(|l| l.trim().to_string()).filter(|l| !l.is_empty()).collect() };
    let broken_tuple = b.lines().any(|l| {
        let t = l.trim_end();
        // an opening parenthesis that is still open at the end of the line, followed by a comma
        // separated continuation: `-> ({ .. },` / `: (` / `= (` / a bare `(`
        let open = t.matches('(').count() > t.matches(')').count();
        t.ends_with('(') || t.contains(": (") || t.contains("= (") || (open && t.ends_with(','))
    });
    broken_tuple && norm(a) == norm(b)
}

/// `a` (second pass) and `b` (first pass) differ in blank lines only and `b` has an empty line
/// directly above a line that consists of a closing brace
fn blank_line_before_closing_brace_only(a: &str, b: &str) -> bool {
    let norm = |s: &str| -> Vec<String> { s.lines().map(|l| l.trim_end().to_string()).filter(|l| !l.is_empty()).collect() };
    let lines: Vec<&str> = b.lines().collect();
    let has = lines.windows(2).any(|w| w[0].trim().is_empty() && (w[1].trim() == "}" || w[1].trim() == "},"));
    has && norm(a) == norm(b)
}

fn glu_files() -> Vec<String> {
    let mut out = vec![];
    for dir in ["/repo/std", "/repo/tests/pass", "/repo/examples", "/repo/std/json", "/repo/std/effect", "/repo/std/regex", "/repo/std/http", "/repo/repl/src", "/repo/tests/pass/json"] {
        if let Ok(rd) = std::fs::read_dir(dir) {
            let mut names: Vec<String> = rd
                .filter_map(|e| e.ok())
                .map(|e| e.path().to_string_lossy().to_string())
                .filter(|p| p.ends_with(".glu"))
                .collect();
            names.sort();
            out.extend(names);
        }
    }
    out
}

/// whitespace perturbations that cannot change layout: trailing spaces, extra blank lines, CRLF
fn perturb(src: &str, mode: u32) -> String {
    let crlf = mode & 1 != 0;
    let trailing = mode & 2 != 0;
    let blanks = mode & 4 != 0;
    let mut lines: Vec<String> = vec![];
    let mut in_block_string = false;
    for (i, l) in src.lines().enumerate() {
        let mut l = l.to_string();
        // do not touch lines inside multi-line string literals (odd number of quotes heuristic)
        let quotes = l.matches('"').count() - l.matches("\\\"").count();
        let inside = in_block_string;
        if quotes % 2 == 1 {
            in_block_string = !in_block_string;
        }
        if !inside && !in_block_string {
            if trailing && i % 3 == 0 {
                l.push_str("  ");
            }
            if blanks && i % 5 == 4 {
                lines.push(String::new());
            }
        }
        lines.push(l);
    }
    let nl = if crlf { "\r\n" } else { "\n" };
    let mut s = lines.join(nl);
    s.push_str(nl);
    s
}

fn tree_of(vm: &gluon::Thread, name: &str, src: &str) -> Result<String, String> {
    let mut db = vm.get_database();
    let mut compiler = vm.module_compiler(&mut db);
    match futures::executor::block_on(src.reparse_infix(&mut compiler, vm, name, src)) {
        Ok(v) => Ok(g_expr(v.expr.expr())),
        Err(s) => Err(s.error.to_string()),
    }
}

/// An operator chain written without parentheses over prelude operators, `#` primitives and
/// locally defined operators with and without an `#[infix]` attribute, with and without the
/// implicit prelude: whatever the formatter knows about the operators' fixities, the chain must
/// come out as written.  (The shared program printer parenthesises every operand.)
fn gen_chain(t: &mut Tape) -> Value {
    let no_prelude = t.chance(1, 2);
    let mut src = String::new();
    if no_prelude {
        src.push_str("//@NO-IMPLICIT-PRELUDE\n");
    }
    let user_ops = ["+++", "<+>", "|>>", "<=>"];
    let mut ops: Vec<String> = ["+", "-", "*", "/", "==", "<", "<=", "&&", "||", "<>", "#Int+", "#Int*", "#Int-", "#Int<"].iter().map(|s| s.to_string()).collect();
    let mut without_attr = false;
    for (i, op) in user_ops.iter().enumerate() {
        if t.chance(1, 2) {
            continue;
        }
        if t.chance(2, 3) {
            src.push_str(&format!("#[infix({}, {})]\n", if t.chance(1, 2) { "left" } else { "right" }, 1 + (i * 3 + t.pick(3)) % 9));
        } else {
            without_attr = true;
        }
        src.push_str(&format!("let ({}) x y = x\n", op));
        ops.push(op.to_string());
    }
    for v in ["a", "b", "c", "d"] {
        src.push_str(&format!("let {} = 1\n", v));
    }
    src.push_str("let f x = x\n");
    let operand = |t: &mut Tape| -> String {
        match t.pick(8) {
            0 => "1".into(),
            1 => "(f a)".into(),
            2 => "f b".into(),
            3 => "(a, b)._0".into(),
            _ => ["a", "b", "c", "d"][t.pick(4)].to_string(),
        }
    };
    let n = 2 + t.pick(5);
    let mut chain = operand(t);
    for _ in 0..n {
        let op = ops[t.pick(ops.len())].clone();
        let rhs = if t.chance(1, 8) {
            format!("({} {} {})", operand(t), ops[t.pick(ops.len())], operand(t))
        } else {
            operand(t)
        };
        chain.push_str(&format!(" {} {}", op, rhs));
    }
    src.push_str(&chain);
    src.push('\n');
    json!({"kind": "gen", "src": src, "style": crate::gen::print::Style::default(), "chain": true, "no_fixity": no_prelude || without_attr})
}

impl Property for C10 {
    fn id(&self) -> &'static str {
        "C10"
    }
    fn plan(&self, tier: Tier) -> Plan {
        Plan {
            random_cases: tier.pick(60_000, 1_000_000),
            tape_len: tier.pick(300, 600),
            watchdog_s: 120,
            worker_recycle: 1000,
            worker_stack: 64 << 20,
            ..Plan::default()
        }
    }
    fn fixed_cases(&self, tier: Tier) -> Vec<Value> {
        let mut v = vec![];
        for f in glu_files() {
            for mode in 0..tier.pick(4, 8) {
                v.push(json!({"kind": "file", "path": f, "mode": mode}));
            }
        }
        v
    }
    fn exhaustive_note(&self, tier: Tier) -> Option<String> {
        Some(format!(
            "every .glu file under /repo/std (and sub-directories), /repo/tests/pass, /repo/examples, /repo/repl/src ({} files) x {} whitespace perturbations (trailing spaces / extra blank lines / CRLF)",
            glu_files().len(),
            tier.pick(4, 8)
        ))
    }
    fn gen(&self, t: &mut Tape, tier: Tier) -> Value {
        if t.chance(1, 10) {
            return gen_chain(t);
        }
        let mut style = style_from(t);
        // comments and long lines are what the formatter has to work on
        if t.chance(1, 2) {
            style.comments = 2 + t.pick(4) as u8;
        }
        let hash_only = t.chance(1, 3);
        // operators whose fixity is unknown when the file is formatted (here: the prelude's, with
        // the implicit prelude switched off; in practice also operators of modules the formatter
        // cannot find): the formatter must still print the chain as written
        let no_fixity = !hash_only && t.chance(1, 5);
        let cfg = GenCfg { max_size: tier.pick(70, 140), hash_only, ..GenCfg::default() };
        let prog = gen_program(t, cfg);
        let src = print_program(&prog, style, if no_fixity { "//@NO-IMPLICIT-PRELUDE\n" } else { "" });
        json!({"kind": "gen", "src": src, "style": style, "no_fixity": no_fixity})
    }
    fn exec(&self, ctx: &mut WorkerCtx, case: &Value) -> Value {
        if ctx.state.is_none() {
            ctx.state = Some(Box::new(gl::new_vm(Settings::default())));
        }
        let vm = ctx.state.as_ref().unwrap().downcast_ref::<gluon::RootedThread>().unwrap().clone();
        let src = if case["kind"] == "file" {
            match std::fs::read_to_string(case["path"].as_str().unwrap()) {
                Ok(s) => perturb(&s, case["mode"].as_u64().unwrap_or(0) as u32),
                Err(e) => return json!({"skip": e.to_string()}),
            }
        } else {
            case["src"].as_str().unwrap().to_string()
        };
        let tree_in = match tree_of(&vm, "c10in", &src) {
            Ok(t) => t,
            Err(e) => return json!({"skip": format!("input does not parse: {}", e.lines().next().unwrap_or(""))}),
        };
        let mut fmt = gluon_format::Formatter::default();
        let out = match vm.format_expr(&mut fmt, "c10in", &src) {
            Ok(o) => o,
            Err(e) => return json!({"format_error": e.to_string(), "src": src}),
        };
        let tree_out = tree_of(&vm, "c10out", &out);
        let again = vm.format_expr(&mut fmt, "c10out", &out).map_err(|e| e.to_string());
        let (lin, lout) = (lex(&src), lex(&out));
        json!({
            "src": src, "out": out,
            "tree_equal": tree_out.as_ref().map(|t| *t == tree_in).unwrap_or(false),
            "tree_in": tree_in.chars().take(20000).collect::<String>(),
            "tree_out": tree_out.map(|t| t.chars().take(20000).collect::<String>()),
            "again": again,
            "comments_in": lin.comments, "comments_out": lout.comments,
            "literals_in": lin.literals, "literals_out": lout.literals,
        })
    }
    fn judge(&self, case: &Value, obs: &Obs, kf: &KnownFindings) -> Judged {
        let mut j = Judged::pass();
        let v = match obs {
            Obs::Ok(v) => v,
            Obs::TimedOut => {
                j.verdict = Verdict::Inconclusive("watchdog".into());
                return j;
            }
            other => {
                let (k, text) = match other {
                    Obs::Panicked { msg, loc } => ("panic", format!("{} at {}", msg, loc)),
                    Obs::Died { status, tail } => ("died", format!("{} {}", status, tail)),
                    _ => ("", String::new()),
                };
                j.verdict = match kf.matches("C10", k, &text, &[]) {
                    Some(id) => Verdict::Known(id),
                    None => Verdict::Violation(format!("formatting killed or panicked the host: {}\ncase: {}", other.to_json(), describe_case(case))),
                };
                return j;
            }
        };
        let kind = case["kind"].as_str().unwrap_or("");
        if v.get("skip").is_some() {
            j.classes.push(format!("skipped_does_not_parse:{}", kind));
            return j;
        }
        let src = v["src"].as_str().unwrap_or("");
        let viol = |what: String| -> Verdict {
            if std::env::var("C10_SURVEY").is_ok() {
                // experimentation aid (not used by registered commands)
                let n = if what.starts_with("not idempotent") { 80 } else { 3 };
                return Verdict::Inconclusive(format!("SURVEY {} :: {}", describe_case(case), what.lines().take(n).collect::<Vec<_>>().join("\n")));
            }
            match kf.matches("C10", "wrong_value", &what, &[]) {
                Some(id) => Verdict::Known(id),
                None => Verdict::Violation(format!("{}\ninput ({}):\n{}", what, describe_case(case), src.chars().take(3000).collect::<String>())),
            }
        };
        if let Some(e) = v.get("format_error") {
            j.verdict = viol(format!("the input parses but the formatter refused it: {}", e.as_str().unwrap_or("").lines().take(6).collect::<Vec<_>>().join(" / ")));
            return j;
        }
        let out = v["out"].as_str().unwrap_or("");
        let show_out = || out.chars().take(3000).collect::<String>();
        match &v["tree_out"] {
            Value::Object(o) if o.contains_key("Err") => {
                j.verdict = viol(format!(
                    "formatted text does not parse: {}\nformatted:\n{}",
                    o["Err"].as_str().unwrap_or("").lines().take(8).collect::<Vec<_>>().join(" / "),
                    show_out()
                ));
                return j;
            }
            _ => {}
        }
        if v["tree_equal"] != true {
            let a = v["tree_in"].as_str().unwrap_or("");
            let b = v["tree_out"]["Ok"].as_str().unwrap_or("");
            let p = a.bytes().zip(b.bytes()).position(|(x, y)| x != y).unwrap_or(a.len().min(b.len()));
            let from = p.saturating_sub(80);
            let cut = |s: &str| -> String { s.chars().skip(from).take(200).collect() };
            j.verdict = viol(format!(
                "formatting changed the syntax tree (first difference at {})\n before ..{}\n after  ..{}\nformatted:\n{}",
                p,
                cut(a),
                cut(b),
                show_out()
            ));
            return j;
        }
        let cin: Vec<String> = serde_json::from_value(v["comments_in"].clone()).unwrap_or_default();
        let cout: Vec<String> = serde_json::from_value(v["comments_out"].clone()).unwrap_or_default();
        let mut known: Option<String> = None;
        if cin != cout {
            // nothing may be invented, duplicated or reordered
            if !is_subsequence(&cout, &cin) {
                j.verdict = viol(format!(
                    "comments were added, duplicated or reordered\n before: {:?}\n after:  {:?}\nformatted:\n{}",
                    cin, cout, show_out()
                ));
                return j;
            }
            // comments in the positions the formatter handles must survive
            let safe = safe_comments(src);
            if !is_subsequence(&safe, &cout) {
                j.verdict = viol(format!(
                    "comments next to let bindings / at the start of a block were lost\n such comments before: {:?}\n all comments after:   {:?}\nformatted:\n{}",
                    safe, cout, show_out()
                ));
                return j;
            }
            match kf.matches("C10", "wrong_value", "comments differ", &["comment_outside_binding_positions".to_string()]) {
                Some(id) => known = Some(id),
                None => {
                    j.verdict = viol(format!("comments differ\n before: {:?}\n after:  {:?}\nformatted:\n{}", cin, cout, show_out()));
                    return j;
                }
            }
        }
        if v["literals_in"] != v["literals_out"] {
            j.verdict = viol(format!(
                "literal tokens differ\n before: {}\n after:  {}\nformatted:\n{}",
                v["literals_in"], v["literals_out"], show_out()
            ));
            return j;
        }
        match &v["again"] {
            Value::Object(o) if o.get("Ok").and_then(|x| x.as_str()) == Some(out) => {}
            other => {
                let again = other.get("Ok").and_then(|x| x.as_str());
                let only_blank_after_paren = again.map(|a| only_tuple_whitespace(a, out)).unwrap_or(false);
                let what = format!(
                    "not idempotent: formatting the formatted text gives\n{}\ninstead of\n{}",
                    again.map(|s| s.chars().take(3000).collect::<String>()).unwrap_or_else(|| other.to_string()),
                    show_out()
                );
                // a record whose last field is followed by a blank line keeps that blank line in the
                // first pass and loses it in the second (KF-C10-07): blank-line-only difference and
                // the first output has an empty line directly above a closing brace
                let blank_before_brace = again.map(|a| blank_line_before_closing_brace_only(a, out)).unwrap_or(false);
                let feats = if only_blank_after_paren {
                    vec!["second_pass_adds_blank_line_after_open_paren".to_string()]
                } else if blank_before_brace {
                    vec!["second_pass_removes_blank_line_before_closing_brace".to_string()]
                } else {
                    vec![]
                };
                match kf.matches("C10", "not_equal", "not idempotent", &feats) {
                    Some(id) if only_blank_after_paren || blank_before_brace => known = Some(id),
                    _ => {
                        j.verdict = viol(what);
                        return j;
                    }
                }
            }
        }
        if let Some(id) = known {
            j.verdict = Verdict::Known(id);
        }
        j.classes.push(format!("kind:{}", kind));
        if case["chain"] == true {
            j.classes.push("operator_chain".into());
        }
        if case["no_fixity"] == true && v["src"].as_str().map(|s| s.contains(" + ") || s.contains(" * ") || s.contains(" - ") || s.contains(" == ") || s.contains(" < ")).unwrap_or(false) {
            j.classes.push("operators_without_known_fixity".into());
        }
        let changed = out != src;
        if changed {
            j.classes.push("formatter_changed_text".into());
        }
        let ncomments = v["comments_in"].as_array().map(|a| a.len()).unwrap_or(0);
        if ncomments > 0 {
            j.classes.push("has_comments".into());
        }
        if src.lines().any(|l| l.len() > 100) {
            j.classes.push("line_over_100_columns".into());
        }
        if changed || ncomments > 0 {
            j.nontrivial.push(fnv(src.as_bytes()));
        }
        j
    }
    fn rule(&self) -> String {
        "inputs: generated programs printed in random legal styles (explicit in / layout, redundant parentheses, line comments at line ends and on own lines, blank lines, CRLF, records wider than the formatter's 100 columns) and every .glu file of the repository under whitespace perturbation. For every input that parses (parse -> macro expansion -> infix regrouping, as format_expr does): format_expr returns text; that text parses to the same canonical tree; the sequence of comments is the same; the sequence of literal tokens is byte-identical; formatting it again returns it unchanged. Non-trivial = the formatter changed the text or the input has comments; distinct by input hash".into()
    }
    fn assumptions(&self) -> Vec<String> {
        vec![
            "block comments are compared modulo runs of whitespace (they may be re-indented), line comments modulo trailing whitespace".into(),
            "inputs that do not parse in this VM (e.g. files needing optional features) are counted and skipped".into(),
        ]
    }
    fn describe(&self, case: &Value, obs: &Obs) -> Value {
        let mut o = obs.to_json();
        for k in ["tree_in", "tree_out", "src", "out", "literals_in", "literals_out"] {
            if let Some(ok) = o.get_mut("ok").and_then(|x| x.as_object_mut()) {
                if k == "src" || k == "out" {
                    if let Some(s) = ok.get(k).and_then(|x| x.as_str()) {
                        let short: String = s.chars().take(600).collect();
                        ok.insert(k.to_string(), json!(short));
                    }
                } else {
                    ok.remove(k);
                }
            }
        }
        json!({"case": describe_case(case), "obs": o})
    }
}

fn describe_case(case: &Value) -> String {
    if case["kind"] == "file" {
        format!("file {} perturbation {}", case["path"].as_str().unwrap_or(""), case["mode"])
    } else {
        format!("generated, style {}", case["style"])
    }
}

//! C04 — optimisation never changes what a program does (pure differential).
use gluon::{RootedThread, ThreadExt};
use serde_json::{json, Value};

use crate::engine::*;
use crate::gen::ast::Program;
use crate::gen::print::print_program;
use crate::gen::prog::{gen_program, GenCfg};
use crate::gl::{self, Outcome, Settings};
use crate::props::c01::style_from;
use crate::props::common::*;
use crate::tape::{fnv, Tape};

pub struct C04;

struct Vms {
    opt: RootedThread,
    unopt: RootedThread,
}

fn is_overflow(o: &Outcome) -> bool {
    matches!(o, Outcome::Fail { class, msg } if class == "vm_message" && msg == "Arithmetic overflow")
}

impl Property for C04 {
    fn id(&self) -> &'static str {
        "C04"
    }
    fn plan(&self, tier: Tier) -> Plan {
        Plan {
            random_cases: tier.pick(8000, 200_000),
            tape_len: tier.pick(300, 700),
            watchdog_s: 60,
            worker_recycle: 500,
            ..Plan::default()
        }
    }
    fn gen(&self, t: &mut Tape, tier: Tier) -> Value {
        let style = style_from(t);
        let cfg = GenCfg {
            max_size: tier.pick(40, 90),
            hash_only: t.chance(1, 4),
            discard_bias: true,
            avoid: known().avoided("C04"),
            ..GenCfg::default()
        };
        let prog = gen_program(t, cfg);
        let src = print_program(&prog, style, "");
        json!({"prog": prog, "src": src})
    }
    fn exec(&self, ctx: &mut WorkerCtx, case: &Value) -> Value {
        if ctx.state.is_none() {
            let opt = gl::new_vm(Settings::default());
            let unopt = gl::new_vm(Settings { optimize: false, ..Settings::default() });
            ctx.state = Some(Box::new(Vms { opt, unopt }));
        }
        let vms = ctx.state.as_ref().unwrap().downcast_ref::<Vms>().unwrap();
        // settings are per database; make sure they are what we think
        vms.opt.get_database_mut().set_optimize(true);
        vms.unopt.get_database_mut().set_optimize(false);
        let src = case["src"].as_str().unwrap();
        let _ = gl::take_host_log();
        let o1 = gl::run(&vms.unopt, "c04", src);
        let l1 = gl::take_host_log();
        let o2 = gl::run(&vms.opt, "c04", src);
        let l2 = gl::take_host_log();
        json!({"unopt": serde_json::to_value(&o1).unwrap(), "unopt_log": log_to_json(&l1),
               "opt": serde_json::to_value(&o2).unwrap(), "opt_log": log_to_json(&l2)})
    }
    fn judge(&self, case: &Value, obs: &Obs, kf: &KnownFindings) -> Judged {
        let mut j = Judged::pass();
        let prog: Option<Program> = serde_json::from_value(case["prog"].clone()).ok();
        let src = case["src"].as_str().unwrap_or("");
        let feats: Vec<String> = prog.as_ref().map(|p| p.features.clone()).unwrap_or_default();
        let v = match obs {
            Obs::Ok(v) => v,
            Obs::TimedOut => {
                j.verdict = Verdict::Inconclusive("watchdog".into());
                return j;
            }
            other => {
                let (kind, text) = match other {
                    Obs::Panicked { msg, loc } => ("panic", format!("{} at {}", msg, loc)),
                    Obs::Died { status, tail } => ("died", format!("{} {}", status, tail)),
                    _ => ("", String::new()),
                };
                j.verdict = match kf.matches("C04", kind, &text, &feats) {
                    Some(id) => Verdict::Known(id),
                    None => Verdict::Violation(format!(
                        "compiling/running killed or panicked the host: {}\nprogram:\n{}",
                        other.to_json(),
                        src
                    )),
                };
                return j;
            }
        };
        let unopt: Outcome = serde_json::from_value(v["unopt"].clone()).unwrap();
        let opt: Outcome = serde_json::from_value(v["opt"].clone()).unwrap();
        if let Some(e) = is_front_end_failure(&unopt) {
            j.verdict = Verdict::Inconclusive(format!("generated program rejected by the front end: {}", e));
            j.classes.push("rejected_by_front_end".into());
            return j;
        }
        let (l1, l2) = (log_from_json(&v["unopt_log"]), log_from_json(&v["opt_log"]));
        let same = unopt == opt && l1 == l2;
        if !same {
            // (also when the optimised run overflows *later*: it made every host call of the
            // unoptimised run and then more before its own overflow)
            let got_further = l2.len() > l1.len() && l2[..l1.len()] == l1[..];
            if is_overflow(&unopt) && (!is_overflow(&opt) || got_further) {
                // The one permitted difference: built-in arithmetic whose result is unused may be
                // skipped.  Once an overflow was skipped the rest of the run is not comparable.
                j.classes.push("overflow_skipped_under_optimisation".into());
                return j;
            }
            j.verdict = Verdict::Violation(format!(
                "optimised and unoptimised runs differ\n unoptimised: {}  host calls {:?}\n optimised:   {}  host calls {:?}\nprogram:\n{}",
                show_outcome(&unopt), l1, show_outcome(&opt), l2, src
            ));
            return j;
        }
        j.evals = 2;
        j.classes.push(format!(
            "outcome:{}",
            match &unopt {
                Outcome::Value { .. } => "value".to_string(),
                Outcome::BadShape { .. } => "bad_shape".to_string(),
                Outcome::Fail { class, .. } => class.clone(),
            }
        ));
        if let Some(p) = &prog {
            for f in &p.features {
                j.classes.push(format!("f:{}", f));
            }
            let discards = p.features.iter().any(|f| f == "discarded_binding" || f == "unused_binding");
            let effect = p.features.iter().any(|f| f == "host_call" || f == "failure" || f == "overflow_prone");
            if discards && effect {
                j.nontrivial.push(fnv(serde_json::to_string(&p.body).unwrap().as_bytes()));
            }
        }
        j
    }
    fn rule(&self) -> String {
        "generated programs biased toward discarded bindings (`let _ = ..`, unused names, unused pattern fields) whose right-hand sides call host functions, fail or overflow; each compiled and run with optimisation off and on in two VMs; outcome (value / failure class+message) and the sequence of host calls must be equal, except that an arithmetic overflow of the unoptimised run may be absent from the optimised run. Non-trivial = program with a discarded/unused binding and a host call, failure or overflow-prone arithmetic; distinct by term hash".into()
    }
    fn assumptions(&self) -> Vec<String> {
        vec![
            "pure differential: the reference interpreter is not consulted".into(),
            "when the unoptimised run ends in 'Arithmetic overflow' and the optimised run does not - or overflows only after having made all of the unoptimised run's host calls and more - the case is counted but not compared further (permitted difference)".into(),
        ]
    }
    fn describe(&self, case: &Value, obs: &Obs) -> Value {
        json!({"src": case["src"], "obs": obs.to_json()})
    }
}

//! C19 — standard library structures, codecs and derived instances obey their models.
//!
//! Every case is one generated Gluon program whose inputs are literals; the expected result is
//! computed by a Rust model (BTreeMap, slice::sort, str, serde_json, structural equality and a
//! renderer for derived Show) at generation time and stored in the case.
use std::collections::BTreeMap;

use serde::{Deserialize, Serialize};
use serde_json::{json, Value};

use crate::engine::*;
use crate::gl::{self, norm_float, Outcome, Settings, Val};
use crate::lit;
use crate::props::common::*;
use crate::tape::{fnv, Tape};

pub struct C19;

#[derive(Clone, Debug, Serialize, Deserialize, Default)]
struct Expect {
    /// expected value (Val::Opaque = not compared here)
    val: Option<Val>,
    /// the program must fail at run time (out-of-range index, off-boundary slice, ...)
    fails: bool,
    /// (field, json): field must be `Ok text` and `text` must parse (serde_json) to `json`
    json_field: Option<(String, Value)>,
}

fn list_val(xs: Vec<Val>) -> Val {
    let mut v = Val::Tag("Nil".into(), vec![]);
    for x in xs.into_iter().rev() {
        v = Val::Tag("Cons".into(), vec![x, v]);
    }
    v
}
fn opt_val(x: Option<Val>) -> Val {
    match x {
        Some(v) => Val::Tag("Some".into(), vec![v]),
        None => Val::Tag("None".into(), vec![]),
    }
}
fn arr_lit(xs: &[String]) -> String {
    format!("[{}]", xs.join(", "))
}

const CHARS: &[char] = &[
    'a', 'b', 'c', 'Z', ' ', ' ', '\t', 'é', 'ß', '漢', '🎉', '\u{301}', '"', '\\', '\n', '0', '.', 'a', 'b',
];

fn gen_string(t: &mut Tape, max: usize) -> String {
    let n = t.pick(max + 1);
    (0..n).map(|_| *t.choose(CHARS)).collect()
}

fn small_int(t: &mut Tape) -> i64 {
    match t.pick(8) {
        0 => 0,
        1 => -1,
        2 => t.range(-1000, 1000),
        _ => t.range(0, 9),
    }
}

// ---- map ------------------------------------------------------------------------------------

fn gen_map(t: &mut Tape, tier: Tier, string_keys: bool) -> (String, Expect, Vec<String>) {
    let max_ops = tier.pick(60, 200);
    let n = t.pick(max_ops + 1);
    let skeys = ["", "a", "b", "ab", "é", "z", "aa", "B", "a b", "漢"];
    let mut src = String::new();
    src.push_str("let map @ { Map, ? } = import! std.map\n");
    let (kt, key_lit): (&str, Box<dyn Fn(usize) -> String>) = if string_keys {
        ("String", Box::new(move |k| lit::string(skeys[k % skeys.len()])))
    } else {
        ("Int", Box::new(|k| lit::int(k as i64 - 3)))
    };
    let key_val = |k: usize| -> Val {
        if string_keys {
            Val::Str(skeys[k % skeys.len()].to_string())
        } else {
            Val::Int(k as i64 - 3)
        }
    };
    src.push_str(&format!("let m0 : Map {} Int = map.empty\n", kt));
    // model keyed by the rendered key so that ordering is the key type's ordering
    let mut model_i: BTreeMap<i64, i64> = BTreeMap::new();
    let mut model_s: BTreeMap<String, i64> = BTreeMap::new();
    let mut finds_src = vec![];
    let mut finds_val = vec![];
    let mut cur = 0;
    let (mut overwrites, mut misses) = (0, 0);
    let mut mid: Option<(usize, Val)> = None;
    let items = |mi: &BTreeMap<i64, i64>, ms: &BTreeMap<String, i64>| -> Vec<(Val, Val)> {
        if string_keys {
            ms.iter().map(|(k, v)| (Val::Str(k.clone()), Val::Int(*v))).collect()
        } else {
            mi.iter().map(|(k, v)| (Val::Int(*k), Val::Int(*v))).collect()
        }
    };
    let pair_list = |its: &[(Val, Val)]| -> Val {
        list_val(
            its.iter()
                .map(|(k, v)| Val::Record(vec![("key".into(), k.clone()), ("value".into(), v.clone())]))
                .collect(),
        )
    };
    for i in 0..n {
        let k = t.pick(10);
        if t.chance(3, 5) {
            let v = t.range(0, 999);
            src.push_str(&format!("let m{} = map.insert {} {} m{}\n", cur + 1, key_lit(k), v, cur));
            cur += 1;
            let existed = if string_keys {
                model_s.insert(skeys[k % skeys.len()].to_string(), v).is_some()
            } else {
                model_i.insert(k as i64 - 3, v).is_some()
            };
            if existed {
                overwrites += 1;
            }
        } else {
            finds_src.push(format!("map.find {} m{}", key_lit(k), cur));
            let r = if string_keys {
                model_s.get(skeys[k % skeys.len()]).copied()
            } else {
                model_i.get(&(k as i64 - 3)).copied()
            };
            if r.is_none() {
                misses += 1;
            }
            finds_val.push(opt_val(r.map(Val::Int)));
        }
        if i == n / 2 {
            mid = Some((cur, pair_list(&items(&model_i, &model_s))));
        }
        let _ = key_val(k);
    }
    let its = items(&model_i, &model_s);
    let (mid_m, mid_val) = mid.unwrap_or((0, list_val(vec![])));
    src.push_str(&format!(
        "{{ finds = {}, items = map.to_list m{}, ks = map.keys m{}, vs = map.values m{}, mid = map.to_list m{} }}\n",
        arr_lit(&finds_src),
        cur,
        cur,
        cur,
        mid_m
    ));
    let val = Val::Record(vec![
        ("finds".into(), Val::Array(finds_val)),
        ("items".into(), pair_list(&its)),
        ("ks".into(), list_val(its.iter().map(|x| x.0.clone()).collect())),
        ("vs".into(), list_val(its.iter().map(|x| x.1.clone()).collect())),
        ("mid".into(), mid_val),
    ]);
    let mut feats = vec![if string_keys { "map_string_keys".to_string() } else { "map_int_keys".to_string() }];
    if overwrites > 0 && misses > 0 {
        feats.push("nontrivial".into());
    }
    (src, Expect { val: Some(val), ..Default::default() }, feats)
}

// ---- lists ----------------------------------------------------------------------------------

fn gen_list(t: &mut Tape, tier: Tier) -> (String, Expect, Vec<String>) {
    let max = tier.pick(24, 30);
    let n = t.pick(max + 1);
    let xs: Vec<i64> = (0..n).map(|_| small_int(t)).collect();
    let m = t.pick(6);
    let ys: Vec<i64> = (0..m).map(|_| small_int(t)).collect();
    let c = small_int(t);
    let lits = |v: &[i64]| arr_lit(&v.iter().map(|x| lit::int(*x)).collect::<Vec<_>>());
    let mut src = String::new();
    src.push_str("let list @ { List, ? } = import! std.list\nlet { foldl, foldr } = import! std.foldable\nlet { (<>) } = import! std.semigroup\nlet { map } = import! std.functor\n");
    src.push_str(&format!("let xs : List Int = list.of {}\nlet ys : List Int = list.of {}\n", lits(&xs), lits(&ys)));
    src.push_str(&format!(
        "{{ sorted = list.sort xs, gt = list.filter (\\x -> x > {c}) xs, ne = list.filter (\\x -> x /= {c}) xs, fl = foldl (\\acc x -> acc * 3 + x) 0 xs, fr = foldr (\\x acc -> acc * 3 + x) 0 xs, app = xs <> ys, inc = map (\\x -> x + 1) xs, same = xs, eq = xs == ys, sorted_app = list.sort (ys <> xs) }}\n",
        c = lit::int(c)
    ));
    let ints = |v: Vec<i64>| list_val(v.into_iter().map(Val::Int).collect());
    let mut sorted = xs.clone();
    sorted.sort();
    let mut both = ys.clone();
    both.extend(xs.iter().copied());
    let mut sorted_app = both.clone();
    sorted_app.sort();
    let mut app = xs.clone();
    app.extend(ys.iter().copied());
    let val = Val::Record(vec![
        ("sorted".into(), ints(sorted)),
        ("gt".into(), ints(xs.iter().copied().filter(|x| *x > c).collect())),
        ("ne".into(), ints(xs.iter().copied().filter(|x| *x != c).collect())),
        ("fl".into(), Val::Int(xs.iter().fold(0i64, |acc, x| acc * 3 + x))),
        ("fr".into(), Val::Int(xs.iter().rev().fold(0i64, |acc, x| acc * 3 + x))),
        ("app".into(), ints(app)),
        ("inc".into(), ints(xs.iter().map(|x| x + 1).collect())),
        ("same".into(), ints(xs.clone())),
        ("eq".into(), Val::bool(xs == ys)),
        ("sorted_app".into(), ints(sorted_app)),
    ]);
    let mut feats = vec!["list".to_string()];
    let mut d = xs.clone();
    d.sort();
    d.dedup();
    if xs.len() >= 2 && d.len() < xs.len() {
        feats.push("nontrivial".into());
    }
    (src, Expect { val: Some(val), ..Default::default() }, feats)
}

// ---- arrays ---------------------------------------------------------------------------------

fn gen_array(t: &mut Tape, _tier: Tier) -> (String, Expect, Vec<String>) {
    let strings = t.chance(1, 3);
    let n = t.pick(9);
    let m = t.pick(4);
    let (xs_lit, xs_val): (Vec<String>, Vec<Val>) = (0..n)
        .map(|_| {
            if strings {
                let s = gen_string(t, 3);
                (lit::string(&s), Val::Str(s))
            } else {
                let i = small_int(t);
                (lit::int(i), Val::Int(i))
            }
        })
        .unzip();
    let (ys_lit, ys_val): (Vec<String>, Vec<Val>) = (0..m)
        .map(|_| {
            if strings {
                let s = gen_string(t, 3);
                (lit::string(&s), Val::Str(s))
            } else {
                let i = small_int(t);
                (lit::int(i), Val::Int(i))
            }
        })
        .unzip();
    let ty = if strings { "String" } else { "Int" };
    let mut src = String::new();
    src.push_str("let array = import! std.array\nlet { foldl, foldr } = import! std.foldable\nlet { (<>) } = import! std.semigroup\n");
    src.push_str(&format!("let xs : Array {} = {}\nlet ys : Array {} = {}\n", ty, arr_lit(&xs_lit), ty, arr_lit(&ys_lit)));
    let n_i = n as i64;
    let (risky_src, risky_val): (String, Option<Val>) = match t.pick(3) {
        0 => {
            let i = t.range(-1, n_i + 1);
            (
                format!("array.index xs {}", lit::int(i)),
                if i >= 0 && i < n_i { Some(xs_val[i as usize].clone()) } else { None },
            )
        }
        1 => {
            let a = t.range(-1, n_i + 1);
            let b = t.range(-1, n_i + 1);
            (
                format!("array.slice xs {} {}", lit::int(a), lit::int(b)),
                if a >= 0 && a <= b && b <= n_i {
                    Some(Val::Array(xs_val[a as usize..b as usize].to_vec()))
                } else {
                    None
                },
            )
        }
        _ => {
            // slice of a slice / of an append (fresh arrays)
            let a = t.range(0, n_i + m as i64);
            let b = t.range(a, n_i + m as i64 + 1);
            let mut all = xs_val.clone();
            all.extend(ys_val.iter().cloned());
            (
                format!("array.slice (array.append xs ys) {} {}", a, b),
                if b <= all.len() as i64 { Some(Val::Array(all[a as usize..b as usize].to_vec())) } else { None },
            )
        }
    };
    let count = if strings {
        "foldl (\\acc x -> acc + 1) 0 xs".to_string()
    } else {
        "foldl (\\acc x -> acc * 3 + x) 0 xs".to_string()
    };
    src.push_str(&format!(
        "{{ len = array.len xs, app = array.append xs ys, app2 = xs <> ys, fl = {}, empty = array.is_empty xs, eq = xs == ys, whole = array.slice xs 0 (array.len xs), risky = {} }}\n",
        count, risky_src
    ));
    let mut app = xs_val.clone();
    app.extend(ys_val.iter().cloned());
    let fl = if strings {
        n as i64
    } else {
        xs_val.iter().fold(0i64, |acc, x| acc * 3 + if let Val::Int(i) = x { *i } else { 0 })
    };
    let fails = risky_val.is_none();
    let val = Val::Record(vec![
        ("len".into(), Val::Int(n as i64)),
        ("app".into(), Val::Array(app.clone())),
        ("app2".into(), Val::Array(app)),
        ("fl".into(), Val::Int(fl)),
        ("empty".into(), Val::bool(n == 0)),
        ("eq".into(), Val::bool(xs_val == ys_val)),
        ("whole".into(), Val::Array(xs_val.clone())),
        ("risky".into(), risky_val.unwrap_or(Val::Opaque)),
    ]);
    let mut feats = vec![format!("array_{}", ty)];
    if fails {
        feats.push("out_of_range".into());
    }
    if n > 0 {
        feats.push("nontrivial".into());
    }
    (src, Expect { val: if fails { None } else { Some(val) }, fails, ..Default::default() }, feats)
}

// ---- strings --------------------------------------------------------------------------------

fn gen_strings(t: &mut Tape, _tier: Tier) -> (String, Expect, Vec<String>) {
    let s = gen_string(t, 10);
    // the needle is often a piece of s
    let tt = if t.chance(1, 2) && !s.is_empty() {
        let cs: Vec<char> = s.chars().collect();
        let a = t.pick(cs.len());
        let b = a + t.pick((cs.len() - a).min(3) + 1);
        cs[a..b].iter().collect()
    } else {
        gen_string(t, 2)
    };
    let len = s.len() as i64;
    let i = t.range(0, len + 2);
    let mut src = String::new();
    src.push_str("let string = import! std.string\n");
    src.push_str(&format!("let s = {}\nlet t = {}\n", lit::string(&s), lit::string(&tt)));
    let (risky_src, risky_val): (String, Option<Val>) = match t.pick(3) {
        0 => {
            let a = t.range(-1, len + 1);
            let b = t.range(-1, len + 1);
            let ok = a >= 0 && a <= b && b <= len && s.is_char_boundary(a as usize) && s.is_char_boundary(b as usize);
            (
                format!("string.slice s {} {}", lit::int(a), lit::int(b)),
                if ok { Some(Val::Str(s[a as usize..b as usize].to_string())) } else { None },
            )
        }
        1 => {
            let a = t.range(-1, len + 1);
            let ok = a >= 0 && a <= len && s.is_char_boundary(a as usize);
            (
                format!("string.split_at s {}", lit::int(a)),
                if ok {
                    let (l, r) = s.split_at(a as usize);
                    Some(Val::Record(vec![("_0".into(), Val::Str(l.into())), ("_1".into(), Val::Str(r.into()))]))
                } else {
                    None
                },
            )
        }
        _ => {
            let a = t.range(-1, len + 1);
            let ok = a >= 0 && a < len && s.is_char_boundary(a as usize);
            (
                format!("string.char_at s {}", lit::int(a)),
                if ok { Some(Val::Char(s[a as usize..].chars().next().unwrap() as u32)) } else { None },
            )
        }
    };
    src.push_str(&format!(
        "{{ len = string.len s, empty = string.is_empty s, contains = string.contains s t, sw = string.starts_with s t, ew = string.ends_with s t, find = string.find s t, rfind = string.rfind s t, trim = string.trim s, tl = string.trim_start s, tr = string.trim_end s, tsm = string.trim_start_matches s t, tem = string.trim_end_matches s t, app = string.append s t, app2 = s ++ t, bytes = string.as_bytes s, icb = string.is_char_boundary s {i}, lt = s < t, eq = s == t, risky = {risky} }}\n",
        i = i,
        risky = risky_src
    ));
    let fails = risky_val.is_none();
    let val = Val::Record(vec![
        ("len".into(), Val::Int(len)),
        ("empty".into(), Val::bool(s.is_empty())),
        ("contains".into(), Val::bool(s.contains(&tt))),
        ("sw".into(), Val::bool(s.starts_with(&tt))),
        ("ew".into(), Val::bool(s.ends_with(&tt))),
        ("find".into(), opt_val(s.find(&tt).map(|x| Val::Int(x as i64)))),
        ("rfind".into(), opt_val(s.rfind(&tt).map(|x| Val::Int(x as i64)))),
        ("trim".into(), Val::Str(s.trim().into())),
        ("tl".into(), Val::Str(s.trim_start().into())),
        ("tr".into(), Val::Str(s.trim_end().into())),
        ("tsm".into(), Val::Str(s.trim_start_matches(tt.as_str()).into())),
        ("tem".into(), Val::Str(s.trim_end_matches(tt.as_str()).into())),
        ("app".into(), Val::Str(format!("{}{}", s, tt))),
        ("app2".into(), Val::Str(format!("{}{}", s, tt))),
        ("bytes".into(), Val::Array(s.bytes().map(Val::Byte).collect())),
        ("icb".into(), Val::bool(s.is_char_boundary(i as usize))),
        ("lt".into(), Val::bool(s < tt)),
        ("eq".into(), Val::bool(s == tt)),
        ("risky".into(), risky_val.unwrap_or(Val::Opaque)),
    ]);
    let mut feats = vec!["string".to_string()];
    if fails {
        feats.push("off_boundary_or_out_of_range".into());
    }
    if s.chars().any(|c| c.len_utf8() > 1) {
        feats.push("nontrivial".into());
    }
    (src, Expect { val: if fails { None } else { Some(val) }, fails, ..Default::default() }, feats)
}

// ---- algebraic types with derives -----------------------------------------------------------

#[derive(Clone, Debug, PartialEq)]
enum JTy {
    Int,
    Float,
    Str,
    Bool,
    Opt(Box<JTy>),
    Arr(Box<JTy>),
    Named(usize),
    /// the type parameter of a parameterised declaration (eq/show mode only)
    Param,
}

#[derive(Clone, Debug)]
enum Decl {
    Record(Vec<(String, JTy)>),
    /// constructors with their argument types; `param`: declared as `type Dk a = ..`
    Variant { ctors: Vec<(String, Vec<JTy>)>, param: Option<JTy> },
}

#[derive(Clone, Debug, PartialEq)]
enum JVal {
    Int(i64),
    Float(f64),
    Str(String),
    Bool(bool),
    None,
    Some(Box<JVal>),
    Arr(Vec<JVal>),
    Rec(usize, Vec<JVal>),
    Ctor(usize, usize, Vec<JVal>),
}

struct Types {
    decls: Vec<Decl>,
}

impl Types {
    fn ty_src(&self, t: &JTy, param: &Option<JTy>) -> String {
        match t {
            JTy::Int => "Int".into(),
            JTy::Float => "Float".into(),
            JTy::Str => "String".into(),
            JTy::Bool => "Bool".into(),
            JTy::Opt(x) => format!("(Option {})", self.ty_src(x, param)),
            JTy::Arr(x) => format!("(Array {})", self.ty_src(x, param)),
            JTy::Named(k) => match &self.decls[*k] {
                Decl::Variant { param: Some(p), .. } => format!("(D{} {})", k, self.ty_src(p, &None)),
                _ => format!("D{}", k),
            },
            JTy::Param => match param {
                Some(_) => "a".into(),
                None => "a".into(),
            },
        }
    }
    fn decl_src(&self, k: usize, derives: &str) -> String {
        match &self.decls[k] {
            Decl::Record(fs) => format!(
                "#[derive({})]\ntype D{} = {{ {} }}\n",
                derives,
                k,
                fs.iter().map(|(n, t)| format!("{} : {}", n, self.ty_src(t, &None))).collect::<Vec<_>>().join(", ")
            ),
            Decl::Variant { ctors, param } => format!(
                "#[derive({})]\ntype D{}{} = {}\n",
                derives,
                k,
                if param.is_some() { " a" } else { "" },
                ctors
                    .iter()
                    .map(|(n, args)| format!(
                        "| {}{}",
                        n,
                        args.iter().map(|a| format!(" {}", self.ty_src(a, param))).collect::<String>()
                    ))
                    .collect::<Vec<_>>()
                    .join(" ")
            ),
        }
    }
    fn gen_val(&self, t: &mut Tape, ty: &JTy, depth: usize, param: &Option<JTy>) -> JVal {
        match ty {
            JTy::Int => JVal::Int(match t.pick(6) {
                0 => i64::MAX,
                1 => i64::MIN,
                2 => -1,
                _ => t.range(0, 20),
            }),
            JTy::Float => JVal::Float(match t.pick(8) {
                0 => 0.0,
                1 => -0.0,
                2 => 1.0,
                3 => 1e300,
                4 => -2.5e-7,
                5 => f64::from_bits(t.u64() & 0x7FEF_FFFF_FFFF_FFFF),
                _ => t.range(-40, 40) as f64 / 4.0,
            }),
            JTy::Str => JVal::Str(gen_string(t, 4)),
            JTy::Bool => JVal::Bool(t.chance(1, 2)),
            JTy::Opt(x) => {
                if t.chance(1, 3) {
                    JVal::None
                } else {
                    JVal::Some(Box::new(self.gen_val(t, x, depth + 1, param)))
                }
            }
            JTy::Arr(x) => {
                let n = if depth > 3 { 0 } else { t.pick(4) };
                JVal::Arr((0..n).map(|_| self.gen_val(t, x, depth + 1, param)).collect())
            }
            JTy::Param => {
                let p = param.clone().expect("param type");
                self.gen_val(t, &p, depth + 1, &None)
            }
            JTy::Named(k) => match &self.decls[*k] {
                Decl::Record(fs) => {
                    JVal::Rec(*k, fs.iter().map(|(_, ft)| self.gen_val(t, ft, depth + 1, &None)).collect())
                }
                Decl::Variant { ctors, param: p } => {
                    // deeper values prefer constructors that do not recurse
                    let nonrec: Vec<usize> = (0..ctors.len())
                        .filter(|c| !ctors[*c].1.iter().any(|a| *a == JTy::Named(*k)))
                        .collect();
                    let c = if depth > 2 && !nonrec.is_empty() { *t.choose(&nonrec) } else { t.pick(ctors.len()) };
                    JVal::Ctor(*k, c, ctors[c].1.iter().map(|a| self.gen_val(t, a, depth + 1, p)).collect())
                }
            },
        }
    }
    fn lit(&self, v: &JVal) -> String {
        match v {
            JVal::Int(i) => lit::int(*i),
            JVal::Float(f) => lit::float(*f),
            JVal::Str(s) => lit::string(s),
            JVal::Bool(b) => if *b { "True".into() } else { "False".into() },
            JVal::None => "None".into(),
            JVal::Some(x) => format!("(Some {})", self.lit(x)),
            JVal::Arr(xs) => arr_lit(&xs.iter().map(|x| self.lit(x)).collect::<Vec<_>>()),
            JVal::Rec(k, fs) => match &self.decls[*k] {
                Decl::Record(decl) => format!(
                    "{{ {} }}",
                    decl.iter().zip(fs).map(|((n, _), v)| format!("{} = {}", n, self.lit(v))).collect::<Vec<_>>().join(", ")
                ),
                _ => unreachable!(),
            },
            JVal::Ctor(k, c, args) => match &self.decls[*k] {
                Decl::Variant { ctors, .. } => {
                    if args.is_empty() {
                        ctors[*c].0.clone()
                    } else {
                        format!("({}{})", ctors[*c].0, args.iter().map(|a| format!(" {}", self.lit(a))).collect::<String>())
                    }
                }
                _ => unreachable!(),
            },
        }
    }
    fn val(&self, v: &JVal) -> Val {
        match v {
            JVal::Int(i) => Val::Int(*i),
            JVal::Float(f) => Val::Float(norm_float(*f)),
            JVal::Str(s) => Val::Str(s.clone()),
            JVal::Bool(b) => Val::bool(*b),
            JVal::None => opt_val(None),
            JVal::Some(x) => opt_val(Some(self.val(x))),
            JVal::Arr(xs) => Val::Array(xs.iter().map(|x| self.val(x)).collect()),
            JVal::Rec(k, fs) => match &self.decls[*k] {
                Decl::Record(decl) => Val::Record(decl.iter().zip(fs).map(|((n, _), v)| (n.clone(), self.val(v))).collect()),
                _ => unreachable!(),
            },
            JVal::Ctor(k, c, args) => match &self.decls[*k] {
                Decl::Variant { ctors, .. } => Val::Tag(ctors[*c].0.clone(), args.iter().map(|a| self.val(a)).collect()),
                _ => unreachable!(),
            },
        }
    }
    fn json(&self, v: &JVal) -> Value {
        match v {
            JVal::Int(i) => json!(*i),
            JVal::Float(f) => json!(*f),
            JVal::Str(s) => json!(s),
            JVal::Bool(b) => json!(*b),
            JVal::None => Value::Null,
            JVal::Some(x) => self.json(x),
            JVal::Arr(xs) => Value::Array(xs.iter().map(|x| self.json(x)).collect()),
            JVal::Rec(k, fs) => match &self.decls[*k] {
                Decl::Record(decl) => {
                    Value::Object(decl.iter().zip(fs).map(|((n, _), v)| (n.clone(), self.json(v))).collect())
                }
                _ => unreachable!(),
            },
            JVal::Ctor(_, _, args) => match args.first() {
                Some(a) => self.json(a),
                None => Value::Null,
            },
        }
    }
    /// rendering of derived / std Show instances
    fn show(&self, v: &JVal) -> String {
        match v {
            JVal::Int(i) => format!("{}", i),
            JVal::Float(f) => format!("{}", f),
            JVal::Str(s) => format!("\"{}\"", s),
            JVal::Bool(b) => if *b { "True".into() } else { "False".into() },
            JVal::None => "None".into(),
            JVal::Some(x) => format!("Some ({})", self.show(x)),
            JVal::Arr(xs) => format!("[{}]", xs.iter().map(|x| self.show(x)).collect::<Vec<_>>().join(", ")),
            JVal::Rec(k, fs) => match &self.decls[*k] {
                Decl::Record(decl) => {
                    if decl.is_empty() {
                        "{ }".to_string()
                    } else {
                        format!(
                            "{{ {} }}",
                            decl.iter().zip(fs).map(|((n, _), v)| format!("{} = {}", n, self.show(v))).collect::<Vec<_>>().join(", ")
                        )
                    }
                }
                _ => unreachable!(),
            },
            JVal::Ctor(k, c, args) => match &self.decls[*k] {
                Decl::Variant { ctors, .. } => {
                    format!("{}{}", ctors[*c].0, args.iter().map(|a| format!(" ({})", self.show(a))).collect::<String>())
                }
                _ => unreachable!(),
            },
        }
    }
    /// changes one leaf of `v` (the last one when `last`), returns whether something changed
    fn perturb(&self, t: &mut Tape, v: &mut JVal, last: bool) -> bool {
        match v {
            JVal::Int(i) => {
                *i = i.wrapping_add(1);
                true
            }
            JVal::Float(f) => {
                *f = if *f == 0.5 { 0.25 } else { 0.5 };
                true
            }
            JVal::Str(s) => {
                s.push('x');
                true
            }
            JVal::Bool(b) => {
                *b = !*b;
                true
            }
            JVal::None => false,
            JVal::Some(x) => self.perturb(t, x, last),
            JVal::Arr(xs) | JVal::Rec(_, xs) | JVal::Ctor(_, _, xs) => {
                if xs.is_empty() {
                    return false;
                }
                let order: Vec<usize> = if last {
                    (0..xs.len()).rev().collect()
                } else {
                    let s = t.pick(xs.len());
                    (0..xs.len()).map(|i| (i + s) % xs.len()).collect()
                };
                for i in order {
                    if self.perturb(t, &mut xs[i], last) {
                        return true;
                    }
                }
                false
            }
        }
    }
}

fn struct_eq(a: &JVal, b: &JVal) -> bool {
    // f64 equality as Gluon's Float Eq (IEEE: -0.0 == 0.0; NaN never generated)
    a == b
}

const IMPORTS_DERIVE: &str = "let { Eq, (==) } = import! std.cmp\nlet { Show, show } = import! std.show\nlet { Result, ? } = import! std.result\nlet { ? } = import! std.array\nlet { ? } = import! std.option\nlet { ? } = import! std.float\nlet { ? } = import! std.bool\n";

/// JSON-representable kinds; a variant's alternatives must have pairwise different kinds
#[derive(Clone, Copy, PartialEq, Eq, Debug)]
enum JKind {
    Number,
    Text,
    Boolean,
    List,
    Object,
}

fn gen_json(t: &mut Tape, _tier: Tier) -> (String, Expect, Vec<String>) {
    let mut ty = Types { decls: vec![] };
    // leaf-ish type that never serialises to null
    fn scalar(t: &mut Tape) -> JTy {
        match t.pick(4) {
            0 => JTy::Int,
            1 => JTy::Float,
            2 => JTy::Str,
            _ => JTy::Bool,
        }
    }
    fn field_ty(t: &mut Tape, ty: &Types, depth: usize) -> JTy {
        let named: Vec<usize> = (0..ty.decls.len()).collect();
        match t.pick(if depth > 1 { 4 } else { 8 }) {
            0..=3 => scalar(t),
            4 => JTy::Opt(Box::new(non_null(t, ty, depth + 1))),
            5 => match field_ty(t, ty, depth + 1) {
                JTy::Arr(x) => JTy::Arr(x),
                x => JTy::Arr(Box::new(x)),
            },
            _ => {
                if named.is_empty() {
                    scalar(t)
                } else {
                    JTy::Named(*t.choose(&named))
                }
            }
        }
    }
    fn non_null(t: &mut Tape, ty: &Types, depth: usize) -> JTy {
        match field_ty(t, ty, depth) {
            JTy::Opt(x) => *x,
            other => other,
        }
    }
    let ndecl = 1 + t.pick(3);
    for k in 0..ndecl {
        let records: Vec<usize> = (0..ty.decls.len()).filter(|i| matches!(ty.decls[*i], Decl::Record(_))).collect();
        if k == 0 || t.chance(1, 2) {
            // records without fields cannot derive Serialize / Deserialize (a macro error, KF-C09-14)
            let nf = 1 + t.pick(5);
            let fs = (0..nf).map(|i| (format!("f{}", i), field_ty(t, &ty, 0))).collect();
            ty.decls.push(Decl::Record(fs));
        } else {
            // alternatives of pairwise different JSON kinds, one argument each
            let mut kinds = vec![JKind::Number, JKind::Text, JKind::Boolean, JKind::List];
            if !records.is_empty() {
                kinds.push(JKind::Object);
            }
            let nc = 1 + t.pick(kinds.len().min(4));
            let mut ctors = vec![];
            for c in 0..nc {
                let kind = kinds.remove(t.pick(kinds.len()));
                let arg = match kind {
                    JKind::Number => if t.chance(1, 2) { JTy::Int } else { JTy::Float },
                    JKind::Text => JTy::Str,
                    JKind::Boolean => JTy::Bool,
                    JKind::List => JTy::Arr(Box::new(scalar(t))),
                    JKind::Object => JTy::Named(*t.choose(&records)),
                };
                ctors.push((format!("C{}x{}", k, c), vec![arg]));
            }
            ty.decls.push(Decl::Variant { ctors, param: None });
        }
    }
    let top_named = JTy::Named(ty.decls.len() - 1);
    let top = match t.pick(4) {
        0 => JTy::Arr(Box::new(top_named)),
        1 => JTy::Opt(Box::new(top_named)),
        _ => top_named,
    };
    let v = ty.gen_val(t, &top, 0, &None);
    let mut w = v.clone();
    if t.chance(1, 2) {
        let last = t.chance(1, 2);
        ty.perturb(t, &mut w, last);
    } else {
        w = ty.gen_val(t, &top, 0, &None);
    }
    let jv = ty.json(&v);
    let alt_text = if t.chance(1, 2) { serde_json::to_string_pretty(&jv).unwrap() } else { serde_json::to_string(&jv).unwrap() };
    let tsrc = ty.ty_src(&top, &None);
    let mut src = String::new();
    src.push_str(IMPORTS_DERIVE);
    src.push_str("let { Serialize } = import! std.json.ser\nlet { Deserialize } = import! std.json.de\nlet ser @ { ? } = import! std.json.ser\nlet de @ { ? } = import! std.json.de\n");
    for k in 0..ty.decls.len() {
        src.push_str(&ty.decl_src(k, "Eq, Show, Serialize, Deserialize"));
    }
    src.push_str(&format!("let v : {} = {}\nlet w : {} = {}\n", tsrc, ty.lit(&v), tsrc, ty.lit(&w)));
    src.push_str("let s = ser.to_string v\n");
    src.push_str(&format!(
        "let back : Result String {} =\n    match s with\n    | Ok text -> de.deserialize text\n    | Err e -> Err e\n",
        tsrc
    ));
    src.push_str(&format!("let back2 : Result String {} = de.deserialize {}\n", tsrc, lit::string(&alt_text)));
    src.push_str("{ s, back, back2, eq_vw = v == w, eq_wv = w == v, eq_vv = v == v, sh = show v }\n");
    let ok = |x: Val| Val::Tag("Ok".into(), vec![x]);
    let val = Val::Record(vec![
        ("s".into(), Val::Opaque),
        ("back".into(), ok(ty.val(&v))),
        ("back2".into(), ok(ty.val(&v))),
        ("eq_vw".into(), Val::bool(struct_eq(&v, &w))),
        ("eq_wv".into(), Val::bool(struct_eq(&v, &w))),
        ("eq_vv".into(), Val::bool(true)),
        ("sh".into(), Val::Str(ty.show(&v))),
    ]);
    let mut feats = vec!["json_roundtrip".to_string()];
    if ty.decls.iter().any(|d| matches!(d, Decl::Variant { ctors, .. } if ctors.len() >= 2)) {
        feats.push("nontrivial".into());
    }
    (src, Expect { val: Some(val), fails: false, json_field: Some(("s".into(), jv)) }, feats)
}

fn gen_eqshow(t: &mut Tape, _tier: Tier) -> (String, Expect, Vec<String>) {
    let mut ty = Types { decls: vec![] };
    fn any_ty(t: &mut Tape, ty: &Types, depth: usize, self_k: Option<usize>, allow_param: bool) -> JTy {
        let named: Vec<usize> = (0..ty.decls.len()).collect();
        match t.pick(if depth > 1 { 5 } else { 10 }) {
            0 => JTy::Int,
            1 => JTy::Float,
            2 => JTy::Str,
            3 => JTy::Bool,
            4 => {
                if allow_param {
                    JTy::Param
                } else {
                    JTy::Int
                }
            }
            // Option (Option _) / Array (Array _) make implicit resolution give up ("possible
            // infinite loop"), a checker limitation outside this property
            5 => match any_ty(t, ty, depth + 1, None, allow_param) {
                JTy::Opt(x) => JTy::Opt(x),
                x => JTy::Opt(Box::new(x)),
            },
            6 => match any_ty(t, ty, depth + 1, None, allow_param) {
                JTy::Arr(x) => JTy::Arr(x),
                x => JTy::Arr(Box::new(x)),
            },
            7 => match self_k {
                Some(k) => JTy::Named(k),
                None => JTy::Str,
            },
            _ => {
                if named.is_empty() {
                    JTy::Int
                } else {
                    JTy::Named(*t.choose(&named))
                }
            }
        }
    }
    let ndecl = 1 + t.pick(3);
    for k in 0..ndecl {
        if t.chance(1, 3) {
            let nf = 1 + t.pick(6);
            let fs = (0..nf).map(|i| (format!("f{}", i), any_ty(t, &ty, 0, None, false))).collect();
            ty.decls.push(Decl::Record(fs));
        } else {
            let param = if t.chance(1, 3) { Some(if t.chance(1, 2) { JTy::Int } else { JTy::Str }) } else { None };
            let nc = 1 + t.pick(4);
            let mut ctors = vec![];
            for c in 0..nc {
                let na = t.pick(4);
                // a parameterised type does not refer to itself (it would need `D a` spelled out)
                let self_k = if param.is_none() && c > 0 { Some(k) } else { None };
                let args = (0..na).map(|_| any_ty(t, &ty, 0, self_k, param.is_some())).collect();
                ctors.push((format!("C{}x{}", k, c), args));
            }
            ty.decls.push(Decl::Variant { ctors, param });
        }
    }
    let top = JTy::Named(ty.decls.len() - 1);
    let v = ty.gen_val(t, &top, 0, &None);
    let mut w = v.clone();
    let mode = t.pick(3);
    if mode == 0 {
        w = ty.gen_val(t, &top, 0, &None);
    } else {
        ty.perturb(t, &mut w, mode == 1);
    }
    let tsrc = ty.ty_src(&top, &None);
    let mut src = String::new();
    src.push_str(IMPORTS_DERIVE);
    for k in 0..ty.decls.len() {
        src.push_str(&ty.decl_src(k, "Eq, Show"));
    }
    src.push_str(&format!("let v : {} = {}\nlet w : {} = {}\n", tsrc, ty.lit(&v), tsrc, ty.lit(&w)));
    src.push_str("{ eq_vw = v == w, eq_wv = w == v, eq_vv = v == v, eq_ww = w == w, sh_v = show v, sh_w = show w }\n");
    let e = struct_eq(&v, &w);
    let val = Val::Record(vec![
        ("eq_vw".into(), Val::bool(e)),
        ("eq_wv".into(), Val::bool(e)),
        ("eq_vv".into(), Val::bool(true)),
        ("eq_ww".into(), Val::bool(true)),
        ("sh_v".into(), Val::Str(ty.show(&v))),
        ("sh_w".into(), Val::Str(ty.show(&w))),
    ]);
    let mut feats = vec!["derive_eq_show".to_string()];
    if mode == 1 && !e {
        feats.push("differs_in_last_leaf_only".into());
    }
    if ty.decls.iter().any(|d| matches!(d, Decl::Variant { ctors, .. } if ctors.len() >= 2)) {
        feats.push("nontrivial".into());
    }
    (src, Expect { val: Some(val), ..Default::default() }, feats)
}

// ---- property ------------------------------------------------------------------------------

impl Property for C19 {
    fn id(&self) -> &'static str {
        "C19"
    }
    fn plan(&self, tier: Tier) -> Plan {
        Plan {
            random_cases: tier.pick(40_000, 600_000),
            tape_len: tier.pick(500, 900),
            watchdog_s: 120,
            worker_recycle: 400,
            ..Plan::default()
        }
    }
    fn gen(&self, t: &mut Tape, tier: Tier) -> Value {
        let kind = t.pick(7);
        let (name, (src, expect, feats)) = match kind {
            0 => ("map_int", gen_map(t, tier, false)),
            1 => ("map_string", gen_map(t, tier, true)),
            2 => ("list", gen_list(t, tier)),
            3 => ("array", gen_array(t, tier)),
            4 => ("string", gen_strings(t, tier)),
            5 => ("json", gen_json(t, tier)),
            _ => ("eq_show", gen_eqshow(t, tier)),
        };
        json!({"kind": name, "src": src, "expect": expect, "features": feats})
    }
    fn exec(&self, ctx: &mut WorkerCtx, case: &Value) -> Value {
        if ctx.state.is_none() {
            ctx.state = Some(Box::new(gl::new_vm(Settings::default())));
        }
        let vm = ctx.state.as_ref().unwrap().downcast_ref::<gluon::RootedThread>().unwrap();
        let out = gl::run(vm, "c19", case["src"].as_str().unwrap());
        json!({ "out": out })
    }
    fn judge(&self, case: &Value, obs: &Obs, kf: &KnownFindings) -> Judged {
        let mut j = Judged::pass();
        let src = case["src"].as_str().unwrap_or("");
        let kind = case["kind"].as_str().unwrap_or("");
        let feats: Vec<String> = serde_json::from_value(case["features"].clone()).unwrap_or_default();
        let expect: Expect = serde_json::from_value(case["expect"].clone()).unwrap_or_default();
        let v = match obs {
            Obs::Ok(v) => v,
            Obs::TimedOut => {
                j.verdict = Verdict::Inconclusive("watchdog".into());
                return j;
            }
            other => {
                let (k, text) = match other {
                    Obs::Panicked { msg, loc } => ("panic", format!("{} at {}", msg, loc)),
                    Obs::Died { status, tail } => ("died", format!("{} {}", status, tail)),
                    _ => ("", String::new()),
                };
                j.verdict = match kf.matches("C19", k, &text, &feats) {
                    Some(id) => Verdict::Known(id),
                    None => Verdict::Violation(format!("the program killed or panicked the host: {}\nprogram:\n{}", other.to_json(), src)),
                };
                return j;
            }
        };
        let out: Outcome = match serde_json::from_value(v["out"].clone()) {
            Ok(o) => o,
            Err(_) => {
                j.verdict = Verdict::Inconclusive("malformed observation".into());
                return j;
            }
        };
        if let Some(e) = is_front_end_failure(&out) {
            j.verdict = Verdict::Inconclusive(format!("generated program rejected by the front end: {}", e));
            j.classes.push(format!("rejected:{}", kind));
            return j;
        }
        let viol = |what: String| -> Verdict {
            match kf.matches("C19", "wrong_value", &what, &feats) {
                Some(id) => Verdict::Known(id),
                None => Verdict::Violation(format!("[{}] {}\nprogram:\n{}", kind, what, src)),
            }
        };
        match (&out, expect.fails) {
            (Outcome::Fail { .. }, true) => {}
            (Outcome::Fail { class, msg }, false) => {
                j.verdict = viol(format!(
                    "the model expects a value but the program failed: [{}] {}",
                    class,
                    msg.lines().take(5).collect::<Vec<_>>().join(" / ")
                ));
                return j;
            }
            (Outcome::Value { val, .. }, true) => {
                j.verdict = viol(format!(
                    "an out-of-range / off-boundary access must be an error but the program returned {}",
                    val.show()
                ));
                return j;
            }
            (Outcome::BadShape { why, ty }, _) => {
                j.verdict = viol(format!("the result does not have the shape of its type {}: {}", ty, why));
                return j;
            }
            (Outcome::Value { val, .. }, false) => {
                let ev = expect.val.as_ref().unwrap();
                if !same_val(ev, val) {
                    // name the first differing field
                    let mut which = String::new();
                    if let (Val::Record(a), Val::Record(b)) = (ev, val) {
                        for ((n, x), (_, y)) in a.iter().zip(b.iter()) {
                            if !same_val(x, y) {
                                which = format!("field `{}`: model {} , gluon {}", n, x.show(), y.show());
                                break;
                            }
                        }
                    }
                    j.verdict = viol(format!("result differs from the model; {}\n model: {}\n gluon: {}", which, ev.show(), val.show()));
                    return j;
                }
                if let Some((field, js)) = &expect.json_field {
                    let text = match val {
                        Val::Record(fs) => fs.iter().find(|(n, _)| n == field).map(|(_, v)| v.clone()),
                        _ => None,
                    };
                    match text {
                        Some(Val::Tag(ok, args)) if ok == "Ok" && matches!(args.first(), Some(Val::Str(_))) => {
                            let s = if let Some(Val::Str(s)) = args.first() { s.clone() } else { String::new() };
                            match serde_json::from_str::<Value>(&s) {
                                Ok(parsed) => {
                                    if &parsed != js {
                                        j.verdict = viol(format!(
                                            "serialised text denotes another JSON value\n text: {}\n expected: {}",
                                            s, js
                                        ));
                                        return j;
                                    }
                                }
                                Err(e) => {
                                    j.verdict = viol(format!("serialised text is not valid JSON ({}): {}", e, s));
                                    return j;
                                }
                            }
                        }
                        other => {
                            j.verdict = viol(format!("serialisation did not return Ok text: {:?}", other.map(|v| v.show())));
                            return j;
                        }
                    }
                }
            }
        }
        j.classes.push(format!("kind:{}", kind));
        for f in &feats {
            if f != "nontrivial" {
                j.classes.push(format!("f:{}", f));
            }
        }
        if feats.iter().any(|f| f == "nontrivial") {
            j.nontrivial.push(fnv(src.as_bytes()));
        }
        j
    }
    fn rule(&self) -> String {
        "one generated program per case over 7 sub-models: std.map with Int / String keys (0-60 (quick) / 0-200 (thorough) insert/find operations over 10 colliding keys; finds, to_list at mid-point and end, keys, values vs BTreeMap), std.list (sort, filter, foldl, foldr, append, map, eq vs Vec), std.array (len, append, <>, folds, eq, whole slice, and one index/slice that may be out of range: must then be an error), std.string (len, contains, starts/ends_with, find, rfind, trim*, trim_*_matches, append, bytes, is_char_boundary, comparison, and one slice/split_at/char_at at an arbitrary byte index: off-boundary or out of range must be an error) on strings over a pool with multi-byte and combining characters, JSON (generated record/variant types with derive(Eq, Show, Serialize, Deserialize): to_string parses with serde_json to the expected value, deserialize of it and of serde_json's own rendering returns the original), derived Eq/Show (generated algebraic types incl. nullary / 3-argument / recursive / parameterised constructors; == must equal structural equality for pairs that differ in one (often the last) leaf; show must equal the documented rendering). Non-trivial = map history with an overwrite and a miss; list with duplicates; non-empty array; string with a multi-byte character; type with >= 2 constructors. Distinct by program hash".into()
    }
    fn assumptions(&self) -> Vec<String> {
        vec![
            "inputs are literals in the program; marshalling is C11's".into(),
            "JSON: non-finite floats are not generated (not JSON-representable); variant alternatives have pairwise different JSON kinds and exactly one argument (derived Serialize is untagged; derive(Deserialize) does not compile for constructors without arguments)".into(),
            "sort stability is not asserted (elements are Ints)".into(),
        ]
    }
    fn describe(&self, case: &Value, obs: &Obs) -> Value {
        json!({"kind": case["kind"], "src": case["src"], "obs": obs.to_json()})
    }
}

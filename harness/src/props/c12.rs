//! C12 — precompiled bytecode behaves like the source it came from.
use futures::executor::block_on;
use gluon::compiler_pipeline::{Executable, Precompiled};
use gluon::{RootedThread, ThreadExt};
use serde_json::{json, Value};

use crate::engine::*;
use crate::gen::ast::Program;
use crate::gen::print::print_program;
use crate::gen::prog::{gen_program, GenCfg};
use crate::gl::{self, Outcome, Settings};
use crate::props::c01::style_from;
use crate::props::common::*;
use crate::tape::{fnv, Tape};

pub struct C12;

const NO_PRELUDE_HEADER: &str = "let { Bool, Option } = import! std.types\nlet { error } = import! std.prim\n";
const WARM_PRELUDE: &str = "let h = import! h\n1 + 2";
const WARM_NO_PRELUDE: &str = "let { Bool, Option } = import! std.types\nlet { error } = import! std.prim\nlet h = import! h\n1 #Int+ 2";

fn compile(vm: &gluon::Thread, src: &str) -> Result<Vec<u8>, String> {
    let mut buffer = Vec::new();
    {
        let mut ser = serde_json::Serializer::new(&mut buffer);
        match block_on(vm.compile_to_bytecode("c12", src, &mut ser)) {
            Ok(_) => {}
            Err(either::Either::Left(e)) => return Err(format!("[{}] {}", gl::classify(&e).0, e)),
            Err(either::Either::Right(e)) => return Err(format!("[serializer] {}", e)),
        }
    }
    Ok(buffer)
}

fn run_bytecode(vm: &gluon::Thread, bytes: &[u8]) -> Outcome {
    let mut de = serde_json::Deserializer::from_slice(bytes);
    let r = block_on(Precompiled(&mut de).run_expr(
        &mut vm.module_compiler(&mut vm.get_database()),
        vm,
        "c12",
        "",
        (),
    ));
    match r {
        Ok(ev) => {
            let tys = ev.typ.to_string();
            match gl::read_value(vm, ev.value.get_variant(), &ev.typ) {
                Ok(val) => Outcome::Value { val, ty: tys },
                Err(why) => Outcome::BadShape { why, ty: tys },
            }
        }
        Err(e) => {
            let (class, msg) = gl::classify(&e);
            Outcome::Fail { class, msg }
        }
    }
}

fn load_and_import(vm: &gluon::Thread, bytes: &[u8]) -> Outcome {
    let mut de = serde_json::Deserializer::from_reader(std::io::Cursor::new(bytes.to_vec()));
    match block_on(vm.load_bytecode("c12", &mut de)) {
        Ok(()) => gl::run(vm, "c12user", "c12"),
        Err(e) => {
            let (class, msg) = gl::classify(&e);
            Outcome::Fail { class: format!("load:{}", class), msg }
        }
    }
}

fn warm(vm: &gluon::Thread, prelude: bool) {
    let _ = gl::run(vm, "warm", if prelude { WARM_PRELUDE } else { WARM_NO_PRELUDE });
    let _ = gl::take_host_log();
}

const BATTERY: &[(&str, &str)] = &[("1 #Int+ 2", "3"), ("let f x = { a = x, b = \"s\" }\n(f 4).a", "4")];

fn battery(vm: &gluon::Thread) -> Vec<String> {
    let mut bad = vec![];
    for (src, want) in BATTERY {
        match gl::run(vm, "battery", src) {
            Outcome::Value { val, .. } if val.show() == *want => {}
            other => bad.push(format!("`{}` gave {:?}", src, other)),
        }
    }
    bad
}

/// all (path, kind) of scalars inside a JSON document
fn scalar_paths(v: &Value, path: &mut Vec<String>, out: &mut Vec<(Vec<String>, char)>) {
    match v {
        Value::String(_) => out.push((path.clone(), 's')),
        Value::Number(_) => out.push((path.clone(), 'n')),
        Value::Array(xs) => {
            for (i, x) in xs.iter().enumerate() {
                path.push(i.to_string());
                scalar_paths(x, path, out);
                path.pop();
            }
        }
        Value::Object(m) => {
            for (k, x) in m {
                path.push(k.clone());
                out.push((path.clone(), 'k'));
                scalar_paths(x, path, out);
                path.pop();
            }
        }
        _ => {}
    }
}

fn at_mut<'a>(v: &'a mut Value, path: &[String]) -> Option<&'a mut Value> {
    let mut cur = v;
    for p in path {
        cur = match cur {
            Value::Array(xs) => xs.get_mut(p.parse::<usize>().ok()?)?,
            Value::Object(m) => m.get_mut(p)?,
            _ => return None,
        };
    }
    Some(cur)
}

/// type text with the variables bound by `forall` renamed in order of first occurrence
fn alpha_normal(t: &str) -> String {
    let is_id = |c: char| c.is_alphanumeric() || c == '_' || c == '\'';
    // tokens: identifiers and single other characters
    let mut toks: Vec<String> = vec![];
    let mut cur = String::new();
    for c in t.chars() {
        if is_id(c) {
            cur.push(c);
        } else {
            if !cur.is_empty() {
                toks.push(std::mem::take(&mut cur));
            }
            toks.push(c.to_string());
        }
    }
    if !cur.is_empty() {
        toks.push(cur);
    }
    let mut bound: Vec<String> = vec![];
    let mut i = 0;
    while i < toks.len() {
        if toks[i] == "forall" {
            i += 1;
            while i < toks.len() && toks[i] != "." {
                if toks[i].chars().all(is_id) && !toks[i].trim().is_empty() && !bound.contains(&toks[i]) {
                    bound.push(toks[i].clone());
                }
                i += 1;
            }
        }
        i += 1;
    }
    let mut order: Vec<String> = vec![];
    toks.iter()
        .map(|tk| {
            if bound.contains(tk) {
                let k = match order.iter().position(|x| x == tk) {
                    Some(k) => k,
                    None => {
                        order.push(tk.clone());
                        order.len() - 1
                    }
                };
                format!("?{}", k)
            } else {
                tk.clone()
            }
        })
        .collect()
}

impl Property for C12 {
    fn id(&self) -> &'static str {
        "C12"
    }
    fn plan(&self, tier: Tier) -> Plan {
        Plan {
            random_cases: tier.pick(5000, 120_000),
            tape_len: tier.pick(340, 700),
            watchdog_s: 90,
            worker_recycle: 300,
            ..Plan::default()
        }
    }
    fn gen(&self, t: &mut Tape, tier: Tier) -> Value {
        let prelude = t.chance(1, 3);
        let bits: u32 = if prelude { 0 } else { 1 } | if t.chance(1, 2) { 2 } else { 0 } | if t.chance(1, 4) { 4 } else { 0 };
        let header = if prelude { "" } else { NO_PRELUDE_HEADER };
        let cfg = GenCfg {
            max_size: tier.pick(40, 80),
            hash_only: !prelude,
            allow_fun_result: t.chance(1, 3),
            avoid: known().avoided("C12"),
            ..GenCfg::default()
        };
        let prog = gen_program(t, cfg);
        let src = print_program(&prog, style_from(t), header);
        let kind = match t.pick(10) {
            0..=4 => "roundtrip",
            5..=7 => "corrupt",
            _ => "corrupt_numeric",
        };
        // corruption script: a few (selector, payload) pairs interpreted by the worker against the
        // actual serialised form
        let edits: Vec<(u32, u32, u32)> = (0..6).map(|_| (t.next(), t.next(), t.next())).collect();
        json!({"k": kind, "prog": prog, "src": src, "bits": bits, "edits": edits})
    }
    fn exec(&self, _ctx: &mut WorkerCtx, case: &Value) -> Value {
        let bits = case["bits"].as_u64().unwrap_or(0) as u32;
        let s = Settings::from_bits(bits);
        let src = case["src"].as_str().unwrap();
        let kind = case["k"].as_str().unwrap_or("roundtrip");
        // source outcome in its own VM
        let vm_src = gl::new_vm(s);
        let _ = gl::take_host_log();
        let src_out = gl::run(&vm_src, "c12", src);
        let src_log = gl::take_host_log();
        // compile in another VM
        let vm_a = gl::new_vm(s);
        let bytes = match compile(&vm_a, src) {
            Ok(b) => b,
            Err(e) => return json!({"compile_error": e, "src_out": serde_json::to_value(&src_out).unwrap()}),
        };
        let mut res = json!({"src_out": serde_json::to_value(&src_out).unwrap(), "src_log": log_to_json(&src_log), "bytes": bytes.len()});
        if kind == "roundtrip" {
            let _ = gl::take_host_log();
            let same = run_bytecode(&vm_a, &bytes);
            let same_log = gl::take_host_log();
            let vm_b = gl::new_vm(s);
            warm(&vm_b, s.prelude);
            let fresh = run_bytecode(&vm_b, &bytes);
            let fresh_log = gl::take_host_log();
            let vm_c = gl::new_vm(s);
            warm(&vm_c, s.prelude);
            let imported = load_and_import(&vm_c, &bytes);
            let imported_log = gl::take_host_log();
            // a VM that has not loaded what the bytecode refers to: must be an error, not a crash
            let vm_d = gl::new_vm(s);
            let cold = run_bytecode(&vm_d, &bytes);
            let _ = gl::take_host_log();
            let cold_battery = battery(&vm_d);
            res["same"] = serde_json::to_value(&same).unwrap();
            res["same_log"] = log_to_json(&same_log);
            res["fresh"] = serde_json::to_value(&fresh).unwrap();
            res["fresh_log"] = log_to_json(&fresh_log);
            res["imported"] = serde_json::to_value(&imported).unwrap();
            res["imported_log"] = log_to_json(&imported_log);
            res["cold"] = serde_json::to_value(&cold).unwrap();
            res["cold_battery"] = json!(cold_battery);
        } else {
            let edits = case["edits"].as_array().cloned().unwrap_or_default();
            let mut results = vec![];
            let doc: Value = serde_json::from_slice(&bytes).unwrap_or(Value::Null);
            let mut paths = vec![];
            scalar_paths(&doc, &mut vec![], &mut paths);
            let vm_b = gl::new_vm(s);
            warm(&vm_b, s.prelude);
            for e in &edits {
                let (a, b, c) = (e[0].as_u64().unwrap_or(0), e[1].as_u64().unwrap_or(0), e[2].as_u64().unwrap_or(0));
                let (desc, mutated): (String, Vec<u8>) = if kind == "corrupt" && a % 3 == 0 {
                    let cut = ((b * bytes.len() as u64) >> 16) as usize;
                    (format!("truncate to {} of {} bytes", cut, bytes.len()), bytes[..cut.min(bytes.len())].to_vec())
                } else {
                    let wanted = if kind == "corrupt_numeric" { 'n' } else if a % 3 == 1 { 's' } else { 'k' };
                    let cands: Vec<&(Vec<String>, char)> = paths.iter().filter(|p| p.1 == wanted).collect();
                    if cands.is_empty() {
                        continue;
                    }
                    let (path, _) = cands[((b * cands.len() as u64) >> 16) as usize].clone();
                    let mut d2 = doc.clone();
                    let desc;
                    match wanted {
                        'n' => {
                            let slot = at_mut(&mut d2, &path).unwrap();
                            let old = slot.clone();
                            let newv = match c % 4 {
                                0 => json!(0),
                                1 => json!(old.as_i64().unwrap_or(0) + 1),
                                2 => json!(4294967295u64),
                                _ => json!(c),
                            };
                            desc = format!("number at {} : {} -> {}", path.join("/"), old, newv);
                            *slot = newv;
                        }
                        's' => {
                            let slot = at_mut(&mut d2, &path).unwrap();
                            let old = slot.clone();
                            let newv = match c % 3 {
                                0 => json!("undefined.global.name"),
                                1 => json!(format!("{}x", old.as_str().unwrap_or(""))),
                                _ => json!(""),
                            };
                            desc = format!("string at {} : {} -> {}", path.join("/"), old, newv);
                            *slot = newv;
                        }
                        _ => {
                            let (last, parent) = path.split_last().unwrap();
                            if let Some(Value::Object(m)) = at_mut(&mut d2, parent) {
                                m.remove(last);
                            }
                            desc = format!("delete key {}", path.join("/"));
                        }
                    }
                    (desc, serde_json::to_vec(&d2).unwrap())
                };
                let out = run_bytecode(&vm_b, &mutated);
                let _ = gl::take_host_log();
                let bat = battery(&vm_b);
                results.push(json!({"edit": desc, "out": serde_json::to_value(&out).unwrap(), "battery": bat}));
            }
            res["corruptions"] = json!(results);
        }
        res
    }
    fn judge(&self, case: &Value, obs: &Obs, kf: &KnownFindings) -> Judged {
        let mut j = Judged::pass();
        let kind = case["k"].as_str().unwrap_or("roundtrip");
        let src = case["src"].as_str().unwrap_or("");
        let prog: Option<Program> = serde_json::from_value(case["prog"].clone()).ok();
        let feats = vec![format!("kind:{}", kind)];
        j.classes.push(format!("kind:{}", kind));
        let v = match obs {
            Obs::Ok(v) => v,
            Obs::TimedOut => {
                j.verdict = Verdict::Inconclusive("watchdog".into());
                return j;
            }
            other => {
                if kind == "corrupt_numeric" {
                    // numeric operands / indices: the statement does not cover them
                    j.classes.push("info_only:numeric_corruption_crashed".into());
                    return j;
                }
                let (k, text) = match other {
                    Obs::Panicked { msg, loc } => ("panic", format!("{} at {}", msg, loc)),
                    Obs::Died { status, tail } => ("died", format!("{} {}", status, tail)),
                    _ => ("", String::new()),
                };
                j.verdict = match kf.matches("C12", k, &text, &feats) {
                    Some(id) => Verdict::Known(id),
                    None => Verdict::Violation(format!(
                        "serialising, loading or running bytecode ({}) panicked or killed the host: {}\nprogram:\n{}",
                        kind,
                        other.to_json(),
                        src
                    )),
                };
                return j;
            }
        };
        if let Some(e) = v.get("compile_error") {
            let src_out: Outcome = serde_json::from_value(v["src_out"].clone()).unwrap();
            let e_text = e.as_str().unwrap_or("");
            // run_expr checks against an expected type (a hole), compile_to_bytecode checks without
            // one; programs that only the latter rejects fall under the checker's record-field
            // generalisation (judged by C03), not under this property
            if is_front_end_failure(&src_out).is_some() || e_text.starts_with("[typecheck]") {
                j.classes.push("rejected_by_front_end".into());
                j.verdict = Verdict::Inconclusive(format!("generated program rejected: {}", e));
            } else {
                j.verdict = Verdict::Violation(format!("the source runs but cannot be compiled to bytecode: {}\nprogram:\n{}", e, src));
            }
            return j;
        }
        let src_out: Outcome = serde_json::from_value(v["src_out"].clone()).unwrap();
        if kind == "roundtrip" && is_front_end_failure(&src_out).is_some() {
            // run_expr checks against an expected type (a hole), compile_to_bytecode checks without
            // one: a program that only the former rejects (record-field generalisation, judged by
            // C03) has no source result to compare the bytecode with
            j.classes.push("rejected_by_front_end".into());
            j.verdict = Verdict::Inconclusive("generated program rejected when run from source".into());
            return j;
        }
        if kind == "roundtrip" {
            for route in ["same", "fresh", "imported"] {
                let o: Outcome = serde_json::from_value(v[route].clone()).unwrap();
                let log_key = format!("{}_log", route);
                let same_out = match (&src_out, &o) {
                    // (the two checking modes may name quantified variables differently: compared up to renaming)
                    (Outcome::Value { val: a, ty: ta }, Outcome::Value { val: b, ty: tb }) => {
                        same_val(a, b) && (route == "imported" || alpha_normal(ta) == alpha_normal(tb))
                    }
                    (a, b) => a == b,
                };
                // failures while importing are reported through the macro expander: compare class loosely
                let loosely_same = route == "imported"
                    && matches!((&src_out, &o), (Outcome::Fail { msg: a, .. }, Outcome::Fail { msg: b, .. }) if b.contains(a.as_str()));
                if !(same_out || loosely_same) {
                    let text = format!("route {}: source gives {} , bytecode gives {}", route, show_outcome(&src_out), show_outcome(&o));
                    let mut feats = feats.clone();
                    if open_row_inside_value_type(&src_out) || open_row_inside_value_type(&o) {
                        // the checker's row defect (KF-C02-01/05): the value cannot be read by its type
                        feats.push("open_row_in_result_type".to_string());
                    }
                    j.verdict = match kf.matches("C12", "not_equal", &text, &feats) {
                        Some(id) => Verdict::Known(id),
                        None => Verdict::Violation(format!("{}\nprogram:\n{}", text, src)),
                    };
                    return j;
                }
                if v["src_log"] != v[&log_key] {
                    j.verdict = Verdict::Violation(format!(
                        "route {}: host calls differ: source {} bytecode {}\nprogram:\n{}",
                        route, v["src_log"], v[&log_key], src
                    ));
                    return j;
                }
            }
            // cold VM: error or (if nothing external is referenced) the same outcome; never a panic
            if let Some(b) = v["cold_battery"].as_array() {
                if !b.is_empty() {
                    j.verdict = Verdict::Violation(format!("after running bytecode in a VM that lacks its imports the VM is unusable: {}\nprogram:\n{}", b[0], src));
                    return j;
                }
            }
            j.evals = 5;
            if let Some(p) = &prog {
                let interesting = p.features.iter().filter(|f| ["closure_capture", "rec", "record", "user_variant", "rec_group"].contains(&f.as_str())).count();
                if interesting >= 2 {
                    for route in ["same", "fresh", "imported"] {
                        j.nontrivial.push(fnv(src.as_bytes()) ^ fnv(route.as_bytes()));
                    }
                }
            }
        } else {
            let cs = v["corruptions"].as_array().cloned().unwrap_or_default();
            j.evals = cs.len() as u64 + 1;
            for c in &cs {
                let edit = c["edit"].as_str().unwrap_or("");
                let out: Outcome = serde_json::from_value(c["out"].clone()).unwrap();
                let strict = kind == "corrupt";
                j.classes.push(format!(
                    "{}:{}",
                    if edit.starts_with("truncate") { "truncate" } else if edit.starts_with("number") { "number" } else if edit.starts_with("string") { "string" } else { "delete_key" },
                    match &out {
                        Outcome::Value { .. } => "ok",
                        Outcome::BadShape { .. } => "bad_shape",
                        Outcome::Fail { .. } => "err",
                    }
                ));
                if strict {
                    if edit.starts_with("truncate") && !matches!(out, Outcome::Fail { .. }) && !edit.contains(&format!("to {} of {}", v["bytes"], v["bytes"])) {
                        j.verdict = Verdict::Violation(format!("truncated bytecode ({}) loaded without an error: {}\nprogram:\n{}", edit, show_outcome(&out), src));
                        return j;
                    }
                    if let Some(b) = c["battery"].as_array() {
                        if !b.is_empty() {
                            j.verdict = Verdict::Violation(format!("after loading corrupted bytecode ({}) the VM is unusable: {}\nprogram:\n{}", edit, b[0], src));
                            return j;
                        }
                    }
                    j.nontrivial.push(fnv(format!("{}{}", src, edit).as_bytes()));
                }
            }
        }
        j
    }
    fn rule(&self) -> String {
        "generated programs are compiled to bytecode (serde_json) and (roundtrip) run from it in the compiling VM, in a fresh VM that has imported the same modules, and loaded as a module with load_bytecode and imported; outcome, type text and host calls must equal those of running the source; in a VM that lacks the referenced modules the run must end in an error and leave the VM usable. (corrupt) 6 corruptions per program: truncation at a random length, a string replaced (undefined name), a key deleted - each must return (Err or Ok), never panic, and leave the VM usable; truncations must be errors. (corrupt_numeric) numbers changed: information only. Non-trivial = roundtrip of a program with >= 2 of {closure capture, rec, record, user variant} per route, or a strict corruption case; distinct by (source, route/edit)".into()
    }
    fn assumptions(&self) -> Vec<String> {
        vec![
            "bytecode refers to already loaded globals by name: the fresh VM first evaluates a program importing the same modules (h, the implicit prelude or std.types/std.prim)".into(),
            "numeric corruptions are outside the statement (info_only)".into(),
            "non-finite float literals are not generated (JSON cannot carry them)".into(),
        ]
    }
    fn describe(&self, case: &Value, obs: &Obs) -> Value {
        json!({"kind": case["k"], "bits": case["bits"], "src": case["src"], "obs": obs.to_json()})
    }
}

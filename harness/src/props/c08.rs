//! C08 — parsing follows the documented grammar, layout and fixity rules.
//!
//! (a) exhaustive operator chains over a fixity table, regrouped by gluon's pipeline
//!     (parse -> metadata -> reparse_infix) and compared with a declarative grouping rule;
//! (b) generated programs printed in legal concrete styles, parsed with gluon's parser and
//!     compared with the generated tree (canonical S-expressions), plus span invariants.
use gluon::base::fnv::FnvMap;
use gluon::base::types::TypeCache;
use gluon::compiler_pipeline::InfixReparseable;
use gluon::ThreadExt;
use serde_json::{json, Value};

use crate::canon::{g_expr, SpanCheck, TmCanon};
use crate::engine::*;
use crate::gen::ast::Program;
use crate::gen::print::{print_program, Style};
use crate::gen::prog::{gen_program, GenCfg};
use crate::gl::{self, Settings};
use crate::props::c01::style_from;
use crate::tape::{fnv, Tape};

pub struct C08;

#[derive(Clone, Copy, PartialEq, Eq, Debug)]
enum Fix {
    L,
    R,
}

/// (text, precedence, fixity, declared by the program?)
const OPS: &[(&str, i32, Fix, bool)] = &[
    ("|>>", 3, Fix::L, true),
    ("<<|", 3, Fix::R, true),
    (">=>", 5, Fix::L, true),
    ("<=<", 5, Fix::R, true),
    ("^^", 7, Fix::L, true),
    ("%%", 7, Fix::R, true),
    // built-in table of the parser
    ("#Int*", 7, Fix::L, false),
    ("#Int+", 6, Fix::L, false),
    ("#Int==", 4, Fix::L, false),
    ("#Int<", 4, Fix::L, false),
    ("&&", 3, Fix::R, false),
    ("||", 2, Fix::R, false),
];

/// The grouping the declared fixities dictate, stated declaratively: among the operators of
/// lowest precedence in a chain all must associate the same way (else the chain is ill-formed);
/// a left-associative level splits at its last operator, a right-associative one at its first.
fn group(ops: &[usize], lo: usize, hi: usize) -> Result<String, ()> {
    // operands lo..=hi, operators lo..hi (operator i sits between operand i and i+1)
    if lo == hi {
        return Ok(format!("(var x{})", lo));
    }
    let min = (lo..hi).map(|i| OPS[ops[i]].1).min().unwrap();
    let level: Vec<usize> = (lo..hi).filter(|i| OPS[ops[*i]].1 == min).collect();
    let fix = OPS[ops[level[0]]].2;
    if level.iter().any(|i| OPS[ops[*i]].2 != fix) {
        return Err(());
    }
    let at = if fix == Fix::L { *level.last().unwrap() } else { level[0] };
    Ok(format!("(infix {} {} {})", OPS[ops[at]].0, group(ops, lo, at)?, group(ops, at + 1, hi)?))
}

fn chain_text(ops: &[usize]) -> String {
    let mut s = String::from("x0");
    for (i, o) in ops.iter().enumerate() {
        s.push_str(&format!(" {} x{}", OPS[*o].0, i + 1));
    }
    s
}

fn chains_source(chains: &[Vec<usize>]) -> String {
    let mut s = String::new();
    for (name, prec, fix, declared) in OPS {
        if *declared {
            s.push_str(&format!(
                "#[infix({}, {})]\nlet ({}) l r = l\n",
                if *fix == Fix::L { "left" } else { "right" },
                prec,
                name
            ));
        }
    }
    s.push_str("\\x0 x1 x2 x3 x4 x5 x6 x7 ->\n    [\n");
    for (i, c) in chains.iter().enumerate() {
        s.push_str(&format!("        {}{}\n", chain_text(c), if i + 1 < chains.len() { "," } else { "" }));
    }
    s.push_str("    ]\n");
    s
}

fn enumerate(n_ops: usize, len: usize, out: &mut Vec<Vec<usize>>) {
    let mut cur = vec![0; len];
    loop {
        out.push(cur.clone());
        let mut i = len;
        loop {
            if i == 0 {
                return;
            }
            i -= 1;
            cur[i] += 1;
            if cur[i] < n_ops {
                break;
            }
            cur[i] = 0;
        }
    }
}

fn all_chains(tier: Tier) -> Vec<Vec<usize>> {
    let mut v = vec![];
    // every operator of the table, short chains
    for len in 1..=tier.pick(4, 5) {
        enumerate(OPS.len(), len, &mut v);
    }
    // the declared operators (every precedence relation x associativity), long chains
    for len in tier.pick(5, 6)..=tier.pick(6, 7) {
        enumerate(6, len, &mut v);
    }
    v
}

impl Property for C08 {
    fn id(&self) -> &'static str {
        "C08"
    }
    fn plan(&self, tier: Tier) -> Plan {
        Plan {
            random_cases: tier.pick(20_000, 500_000),
            tape_len: tier.pick(300, 600),
            watchdog_s: 120,
            worker_recycle: 1000,
            worker_stack: 64 << 20,
            ..Plan::default()
        }
    }
    fn fixed_cases(&self, tier: Tier) -> Vec<Value> {
        let (ok, bad): (Vec<_>, Vec<_>) = all_chains(tier).into_iter().partition(|c| group(c, 0, c.len()).is_ok());
        let mut cases = vec![];
        for c in ok.chunks(60) {
            cases.push(json!({"kind": "chains", "conflict": false, "chains": c}));
        }
        for c in bad.chunks(60) {
            cases.push(json!({"kind": "chains", "conflict": true, "chains": c}));
        }
        cases
    }
    fn exhaustive_note(&self, tier: Tier) -> Option<String> {
        let n = all_chains(tier).len();
        Some(format!(
            "all operator chains with 1-{} operators over the 12-operator table (6 declared: precedence 3/5/7 x left/right; 6 built in: #Int*, #Int+, #Int==, #Int<, &&, ||) and with {}-{} operators over the 6 declared ones: {} chains",
            tier.pick(4, 5),
            tier.pick(5, 6),
            tier.pick(6, 7),
            n
        ))
    }
    fn gen(&self, t: &mut Tape, tier: Tier) -> Value {
        let mut style = style_from(t);
        // read after style_from so that the other properties' styles decode as before
        if t.chance(1, 3) {
            style.block_comments = 2 + t.pick(5) as u8;
        }
        let cfg = GenCfg { max_size: tier.pick(60, 120), hash_only: t.chance(1, 3), ..GenCfg::default() };
        let prog = gen_program(t, cfg);
        let src = print_program(&prog, style, "");
        json!({"kind": "roundtrip", "prog": prog, "src": src, "style": style})
    }
    fn exec(&self, ctx: &mut WorkerCtx, case: &Value) -> Value {
        if ctx.state.is_none() {
            ctx.state = Some(Box::new(gl::new_vm(Settings { prelude: false, ..Settings::default() })));
        }
        let vm = ctx.state.as_ref().unwrap().downcast_ref::<gluon::RootedThread>().unwrap().clone();
        if case["kind"] == "chains" {
            let chains: Vec<Vec<usize>> = serde_json::from_value(case["chains"].clone()).unwrap();
            let src = chains_source(&chains);
            let mut db = vm.get_database();
            let mut compiler = vm.module_compiler(&mut db);
            let r = futures::executor::block_on(src.as_str().reparse_infix(&mut compiler, &vm, "c08", &src));
            let (expr, errors) = match r {
                Ok(v) => (Some(v.expr), vec![]),
                Err(s) => {
                    let msgs: Vec<String> = s.error.to_string().split("\n\n").map(|x| x.to_string()).collect();
                    (s.value.map(|v| v.expr), vec![s.error.to_string(), format!("{}", msgs.len())])
                }
            };
            // the array elements of the lambda body
            let mut elems = vec![];
            if let Some(e) = &expr {
                use gluon::base::ast::{Expr, ValueBindings};
                let mut cur = e.expr();
                loop {
                    match &cur.value {
                        Expr::LetBindings(ValueBindings::Plain(_), body) => cur = body,
                        Expr::LetBindings(ValueBindings::Recursive(_), body) => cur = body,
                        Expr::Lambda(l) => cur = l.body,
                        Expr::Block(es) if es.len() == 1 => cur = &es[0],
                        Expr::Array(a) => {
                            for x in a.exprs.iter() {
                                elems.push(g_expr(x));
                            }
                            break;
                        }
                        _ => break,
                    }
                }
            }
            json!({"elems": elems, "errors": errors})
        } else {
            let src = case["src"].as_str().unwrap();
            let tc = TypeCache::new();
            let name = "c08rt";
            match vm.parse_expr(&tc, name, src) {
                Ok(mut expr) => {
                    // regroup infix chains with the built-in table (no declared operators here)
                    let symbols = gluon::base::symbol::Symbols::new();
                    let meta: FnvMap<gluon::base::symbol::Symbol, std::sync::Arc<gluon::base::metadata::Metadata>> =
                        FnvMap::default();
                    let rep = expr.with_arena(|arena, e| {
                        gluon::parser::reparse_infix(arena.borrow(), &meta, &symbols, e).map_err(|e| e.to_string())
                    });
                    let base = vm
                        .get_database()
                        .get_filemap(name)
                        .map(|m| {
                            use gluon::base::source::Source;
                            m.span().start().to_usize() as u32
                        })
                        .unwrap_or(0);
                    let mut sc = SpanCheck::new(src, base);
                    sc.expr(expr.expr(), None);
                    json!({"tree": g_expr(expr.expr()), "reparse_error": rep.err(), "span_problems": sc.problems, "nodes": sc.nodes})
                }
                Err(e) => json!({"parse_error": e.to_string()}),
            }
        }
    }
    fn judge(&self, case: &Value, obs: &Obs, kf: &KnownFindings) -> Judged {
        let mut j = Judged::pass();
        let v = match obs {
            Obs::Ok(v) => v,
            Obs::TimedOut => {
                j.verdict = Verdict::Inconclusive("watchdog".into());
                return j;
            }
            other => {
                let (k, text) = match other {
                    Obs::Panicked { msg, loc } => ("panic", format!("{} at {}", msg, loc)),
                    Obs::Died { status, tail } => ("died", format!("{} {}", status, tail)),
                    _ => ("", String::new()),
                };
                j.verdict = match kf.matches("C08", k, &text, &[]) {
                    Some(id) => Verdict::Known(id),
                    None => Verdict::Violation(format!(
                        "parsing killed or panicked the host: {}\nsource:\n{}",
                        other.to_json(),
                        case["src"].as_str().unwrap_or("")
                    )),
                };
                return j;
            }
        };
        if case["kind"] == "chains" {
            let chains: Vec<Vec<usize>> = serde_json::from_value(case["chains"].clone()).unwrap_or_default();
            let conflict = case["conflict"] == true;
            let elems: Vec<String> = serde_json::from_value(v["elems"].clone()).unwrap_or_default();
            let errors: Vec<String> = serde_json::from_value(v["errors"].clone()).unwrap_or_default();
            j.evals = chains.len() as u64;
            if conflict {
                // every chain of the batch has operators of one precedence level that associate
                // differently: each must be reported
                let text = errors.first().cloned().unwrap_or_default();
                let n = text.matches("Conflicting fixities").count();
                if n != chains.len() {
                    j.verdict = Verdict::Violation(format!(
                        "{} chains with conflicting associativities at one precedence level, but {} 'Conflicting fixities' errors were reported\nfirst chains: {:?}\nerror text starts: {}",
                        chains.len(),
                        n,
                        chains.iter().take(3).map(|c| chain_text(c)).collect::<Vec<_>>(),
                        text.chars().take(600).collect::<String>()
                    ));
                    return j;
                }
                for c in &chains {
                    j.nontrivial.push(fnv(chain_text(c).as_bytes()));
                }
                j.classes.push("chains:conflict_batch".into());
            } else {
                if !errors.is_empty() {
                    j.verdict = Verdict::Violation(format!(
                        "well-formed operator chains were rejected: {}\nfirst chains: {:?}",
                        errors[0].chars().take(600).collect::<String>(),
                        chains.iter().take(3).map(|c| chain_text(c)).collect::<Vec<_>>()
                    ));
                    return j;
                }
                if elems.len() != chains.len() {
                    j.verdict = Verdict::Inconclusive(format!("could not locate the {} chains in the parsed tree ({} found)", chains.len(), elems.len()));
                    return j;
                }
                for (c, got) in chains.iter().zip(&elems) {
                    let want = group(c, 0, c.len()).unwrap();
                    if &want != got {
                        j.verdict = Verdict::Violation(format!(
                            "operator chain grouped differently from what the fixities dictate\n chain:    {}\n expected: {}\n gluon:    {}",
                            chain_text(c),
                            want,
                            got
                        ));
                        return j;
                    }
                    let precs: std::collections::BTreeSet<i32> = c.iter().map(|o| OPS[*o].1).collect();
                    if precs.len() >= 2 || c.len() >= 2 {
                        j.nontrivial.push(fnv(chain_text(c).as_bytes()));
                    }
                }
                j.classes.push("chains:grouped_batch".into());
            }
            return j;
        }
        // round trip
        let src = case["src"].as_str().unwrap_or("");
        let prog: Program = match serde_json::from_value(case["prog"].clone()) {
            Ok(p) => p,
            Err(_) => {
                j.verdict = Verdict::Inconclusive("malformed case".into());
                return j;
            }
        };
        let style: Style = serde_json::from_value(case["style"].clone()).unwrap_or_default();
        if let Some(e) = v.get("parse_error") {
            j.verdict = Verdict::Violation(format!(
                "a program printed in a legal concrete style does not parse: {}\nsource:\n{}",
                e.as_str().unwrap_or("").lines().take(8).collect::<Vec<_>>().join(" / "),
                src
            ));
            return j;
        }
        if let Some(e) = v["reparse_error"].as_str() {
            j.verdict = Verdict::Violation(format!("infix regrouping failed: {}\nsource:\n{}", e, src));
            return j;
        }
        let want = TmCanon { decls: &prog.decls, annotate: style.annotate }.program(&prog);
        let got = v["tree"].as_str().unwrap_or("");
        if want != got {
            // first difference
            let p = want.bytes().zip(got.bytes()).position(|(a, b)| a != b).unwrap_or(want.len().min(got.len()));
            let from = p.saturating_sub(60);
            let cut = |s: &str| -> String { s.chars().skip(from).take(160).collect() };
            j.verdict = Verdict::Violation(format!(
                "the parsed tree differs from the printed one (first difference at {})\n expected ..{}\n parsed   ..{}\nsource:\n{}",
                p,
                cut(&want),
                cut(got),
                src
            ));
            return j;
        }
        let problems: Vec<String> = serde_json::from_value(v["span_problems"].clone()).unwrap_or_default();
        if !problems.is_empty() {
            j.verdict = match kf.matches("C08", "wrong_value", &problems[0], &[]) {
                Some(id) => Verdict::Known(id),
                None => Verdict::Violation(format!(
                    "span invariants violated ({} problems), first: {}\nsource:\n{}",
                    problems.len(),
                    problems[0],
                    src
                )),
            };
            return j;
        }
        j.evals = 1;
        let nested_blocks = src.lines().filter(|l| l.starts_with("        ")).count() >= 1;
        if style.comments > 0 || style.block_comments > 0 || nested_blocks {
            j.nontrivial.push(fnv(src.as_bytes()));
        }
        if style.explicit_in {
            j.classes.push("style:explicit_in".into());
        }
        if style.block_comments > 0 {
            j.classes.push("style:block_comments".into());
        }
        if style.comments > 0 {
            j.classes.push("style:comments".into());
        }
        if style.redundant_parens > 0 {
            j.classes.push("style:redundant_parens".into());
        }
        if style.crlf {
            j.classes.push("style:crlf".into());
        }
        if style.blank_lines > 0 {
            j.classes.push("style:blank_lines".into());
        }
        if nested_blocks {
            j.classes.push("layout:nested_blocks".into());
        }
        j
    }
    fn rule(&self) -> String {
        "(a) operator chains x0 o1 x1 ... on xn enumerated completely over a table of 12 operators, run through parse -> metadata -> reparse_infix and compared with the declarative grouping (lowest precedence level splits the chain; a left level at its last operator, a right level at its first; mixed associativity in one level = error, each such chain must be reported as 'Conflicting fixities'); (b) generated programs printed in a random legal style (explicit in / layout, redundant parentheses, line comments, block comments with runs of `*` / `/*` / line breaks inside, blank lines, CRLF), parsed by gluon's parser: the canonical rendering of the parsed tree must equal that of the generated tree, and all spans must lie inside the source on character boundaries, inside their parent, ordered among siblings, with identifier/operator/field-name spans covering exactly that name. Non-trivial = chain with >= 2 operators / a conflict; source with comments or a block nested two levels deep. Distinct by source hash".into()
    }
    fn assumptions(&self) -> Vec<String> {
        vec![
            "only styles the book documents or the formatter emits are printed (one match arm per line, `in` at a line end, comments at line ends or on own lines)".into(),
            "operands of generated infix expressions are parenthesised by the printer; precedence-driven grouping is decided by part (a)".into(),
        ]
    }
    fn describe(&self, case: &Value, obs: &Obs) -> Value {
        if case["kind"] == "chains" {
            let chains: Vec<Vec<usize>> = serde_json::from_value(case["chains"].clone()).unwrap_or_default();
            json!({"kind": "chains", "conflict": case["conflict"], "first_chains": chains.iter().take(4).map(|c| chain_text(c)).collect::<Vec<_>>(), "n": chains.len()})
        } else {
            let mut o = obs.to_json();
            if let Some(t) = o.pointer_mut("/ok/tree") {
                let s: String = t.as_str().unwrap_or("").chars().take(300).collect();
                *t = json!(s);
            }
            json!({"kind": "roundtrip", "src": case["src"], "obs": o})
        }
    }
}

//! C20 — editor queries are total and agree with the typechecker.
use std::collections::BTreeSet;
use std::panic::{catch_unwind, AssertUnwindSafe};

use gluon::base::ast::{Expr, Pattern, PatternField, SpannedExpr, SpannedPattern, ValueBindings};
use gluon::base::pos::{BytePos, Span};
use gluon::base::symbol::Symbol;
use gluon::compiler_pipeline::Typecheckable;
use gluon::ThreadExt;
use gluon_completion as completion;
use serde_json::{json, Value};

use crate::engine::*;
use crate::gen::print::print_program;
use crate::gen::prog::{gen_program, GenCfg};
use crate::gl::{self, Settings};
use crate::props::c01::style_from;
use crate::tape::{fnv, Tape};

pub struct C20;

const NO_PRELUDE_HEADER: &str = "let { Bool, Option } = import! std.types\nlet { error } = import! std.prim\n";

/// an identifier occurrence of the typechecked tree: span, name, the type the checker stored
struct Occ {
    span: Span<BytePos>,
    name: String,
    typ: String,
    /// local names visible at this occurrence
    visible: BTreeSet<String>,
}

struct Walk {
    occs: Vec<Occ>,
    /// every name bound anywhere in the program
    binders: BTreeSet<String>,
    scope: Vec<String>,
    /// binding occurrences (pattern variables, parameters): span, name, the type stored for it
    binds: Vec<(Span<BytePos>, String, String)>,
    /// for every binder the regions of the source in which it is visible
    regions: Vec<(String, Span<BytePos>)>,
}

impl Walk {
    fn bind_pat(&mut self, p: &SpannedPattern<Symbol>, out: &mut Vec<String>) {
        match &p.value {
            Pattern::Ident(id) => {
                let n = id.name.declared_name().to_string();
                self.binders.insert(n.clone());
                self.binds.push((p.span, n.clone(), id.typ.to_string()));
                out.push(n);
            }
            Pattern::As(n, inner) => {
                let n = n.value.declared_name().to_string();
                self.binders.insert(n.clone());
                out.push(n);
                self.bind_pat(inner, out);
            }
            Pattern::Tuple { elems, .. } => {
                for e in elems.iter() {
                    self.bind_pat(e, out);
                }
            }
            Pattern::Constructor(_, args) => {
                for e in args.iter() {
                    self.bind_pat(e, out);
                }
            }
            Pattern::Record { fields, .. } => {
                for f in fields.iter() {
                    if let PatternField::Value { name, value } = f {
                        match value {
                            Some(v) => self.bind_pat(v, out),
                            None => {
                                let n = name.value.declared_name().to_string();
                                self.binders.insert(n.clone());
                                out.push(n);
                            }
                        }
                    }
                }
            }
            Pattern::Literal(_) | Pattern::Error => {}
        }
    }
    fn region(&mut self, names: &[String], span: Span<BytePos>) {
        for n in names {
            self.regions.push((n.clone(), span));
        }
    }
    fn with<R>(&mut self, names: Vec<String>, f: impl FnOnce(&mut Self) -> R) -> R {
        let n = names.len();
        self.scope.extend(names);
        let r = f(self);
        let l = self.scope.len();
        self.scope.truncate(l - n);
        r
    }
    fn expr(&mut self, e: &SpannedExpr<Symbol>) {
        match &e.value {
            Expr::Ident(id) => self.occs.push(Occ {
                span: e.span,
                name: id.name.declared_name().to_string(),
                typ: id.typ.to_string(),
                visible: self.scope.iter().cloned().collect(),
            }),
            Expr::Literal(_) | Expr::Error(_) => {}
            Expr::App { func, args, implicit_args } => {
                self.expr(func);
                for a in implicit_args.iter().chain(args.iter()) {
                    self.expr(a);
                }
            }
            Expr::Lambda(l) => {
                let names: Vec<String> = l.args.iter().map(|a| a.name.value.name.declared_name().to_string()).collect();
                for (n, a) in names.iter().zip(l.args.iter()) {
                    self.binders.insert(n.clone());
                    self.binds.push((a.name.span, n.clone(), a.name.value.typ.to_string()));
                }
                self.region(&names, l.body.span);
                self.with(names, |s| s.expr(l.body));
            }
            Expr::IfElse(a, b, c) => {
                self.expr(a);
                self.expr(b);
                self.expr(c);
            }
            Expr::Match(s, alts) => {
                self.expr(s);
                for alt in alts.iter() {
                    let mut names = vec![];
                    self.bind_pat(&alt.pattern, &mut names);
                    self.region(&names, alt.expr.span);
                    self.with(names, |w| w.expr(&alt.expr));
                }
            }
            Expr::Infix { lhs, rhs, .. } => {
                self.expr(lhs);
                self.expr(rhs);
            }
            Expr::Projection(inner, _, _) => self.expr(inner),
            Expr::Array(a) => {
                for x in a.exprs.iter() {
                    self.expr(x);
                }
            }
            Expr::Record { exprs, base, .. } => {
                for f in exprs.iter() {
                    if let Some(v) = &f.value {
                        self.expr(v);
                    }
                }
                if let Some(b) = base {
                    self.expr(b);
                }
            }
            Expr::Tuple { elems, .. } => {
                for x in elems.iter() {
                    self.expr(x);
                }
            }
            Expr::LetBindings(bs, body) => match bs {
                ValueBindings::Plain(b) => {
                    let mut names = vec![];
                    self.bind_pat(&b.name, &mut names);
                    let params: Vec<String> = b.args.iter().map(|a| a.name.value.name.declared_name().to_string()).collect();
                    for (n, a) in params.iter().zip(b.args.iter()) {
                        self.binders.insert(n.clone());
                        self.binds.push((a.name.span, n.clone(), a.name.value.typ.to_string()));
                    }
                    // a binding with parameters may refer to itself
                    let mut inner = params.clone();
                    if !params.is_empty() {
                        inner.extend(names.iter().cloned());
                    }
                    self.region(&inner, b.expr.span);
                    self.region(&names, body.span);
                    self.with(inner, |w| w.expr(&b.expr));
                    self.with(names, |w| w.expr(body));
                }
                ValueBindings::Recursive(bs) => {
                    let mut names = vec![];
                    for b in bs.iter() {
                        self.bind_pat(&b.name, &mut names);
                    }
                    // the names of a group are in scope from its first binding to the end of the body
                    // (the `let` keywords between the bindings included)
                    if let Some(first) = bs.iter().next() {
                        self.region(&names, Span::new(first.name.span.start(), body.span.end()));
                    }
                    self.with(names, |w| {
                        for b in bs.iter() {
                            let params: Vec<String> =
                                b.args.iter().map(|a| a.name.value.name.declared_name().to_string()).collect();
                            for (n, a) in params.iter().zip(b.args.iter()) {
                                w.binders.insert(n.clone());
                                w.binds.push((a.name.span, n.clone(), a.name.value.typ.to_string()));
                            }
                            w.region(&params, b.expr.span);
                            w.with(params, |w2| w2.expr(&b.expr));
                        }
                        w.expr(body);
                    });
                }
            },
            Expr::TypeBindings(_, body) => self.expr(body),
            Expr::Block(es) => {
                for x in es.iter() {
                    self.expr(x);
                }
            }
            Expr::Do(d) => {
                self.expr(d.bound);
                let mut names = vec![];
                if let Some(p) = &d.id {
                    self.bind_pat(p, &mut names);
                }
                self.region(&names, d.body.span);
                self.with(names, |w| w.expr(d.body));
            }
            // the call of a macro is not typed by the checker (its expansion is)
            Expr::MacroExpansion { .. } => {}
            Expr::Annotated(inner, _) => self.expr(inner),
        }
    }
}

/// token boundaries of a source (coarse: maximal runs of identifier characters, single others)
fn token_starts(src: &str) -> Vec<usize> {
    let b = src.as_bytes();
    let mut out = vec![];
    let mut i = 0;
    while i < b.len() {
        if b[i].is_ascii_whitespace() {
            i += 1;
            continue;
        }
        out.push(i);
        if b[i].is_ascii_alphanumeric() || b[i] == b'_' {
            while i < b.len() && (b[i].is_ascii_alphanumeric() || b[i] == b'_' || b[i] == b'\'') {
                i += 1;
            }
        } else {
            i += 1;
            while i < b.len() && (b[i] & 0xC0) == 0x80 {
                i += 1;
            }
        }
    }
    out
}

fn token_end(src: &str, start: usize) -> usize {
    let b = src.as_bytes();
    let mut i = start;
    if b[i].is_ascii_alphanumeric() || b[i] == b'_' {
        while i < b.len() && (b[i].is_ascii_alphanumeric() || b[i] == b'_' || b[i] == b'\'') {
            i += 1;
        }
    } else {
        i += 1;
        while i < b.len() && (b[i] & 0xC0) == 0x80 {
            i += 1;
        }
    }
    i
}

struct Report {
    queries: u64,
    panics: Vec<String>,
    disagreements: Vec<String>,
    ident_positions: u64,
    nodes_checked: u64,
}

fn run_queries(vm: &gluon::Thread, name: &str, src: &str, check_agreement: bool, stride: usize, rep: &mut Report) -> Option<String> {
    let mut db = vm.get_database();
    let mut compiler = vm.module_compiler(&mut db);
    let r = futures::executor::block_on(src.typecheck_expected(&mut compiler, vm, name, src, None));
    let (value, well_typed) = match r {
        Ok(v) => (v, true),
        Err(s) => match s.value {
            Some(v) => (v, false),
            None => return Some(s.error.to_string().lines().next().unwrap_or("").to_string()),
        },
    };
    let expr = value.expr.expr();
    let source_span = match compiler.database.get_filemap(name) {
        Some(m) => {
            use gluon::base::source::Source;
            m.span()
        }
        None => return Some("no file map".into()),
    };
    let base = source_span.start().to_usize();
    let env = vm.get_env();
    let mut guarded = |what: &str, pos: usize, f: &mut dyn FnMut()| {
        rep.queries += 1;
        if catch_unwind(AssertUnwindSafe(|| f())).is_err() {
            let (msg, loc) = take_panic_info().unwrap_or_default();
            if rep.panics.len() < 5 {
                rep.panics.push(format!("{} at offset {}: {} ({})", what, pos, msg, loc));
            }
        }
    };
    let mut off = 0;
    while off <= src.len() + 1 {
        let pos = BytePos::from((base + off) as u32);
        guarded("find", off, &mut || {
            let _ = completion::find(&env, source_span, expr, pos);
        });
        guarded("find_all_symbols", off, &mut || {
            let _ = completion::find_all_symbols(source_span, expr, pos);
        });
        guarded("symbol", off, &mut || {
            let _ = completion::symbol(source_span, expr, pos);
        });
        guarded("suggest", off, &mut || {
            let _ = completion::suggest(&env, source_span, expr, pos);
        });
        guarded("suggest(prefix_filter=false)", off, &mut || {
            let q = completion::SuggestionQuery { prefix_filter: false, ..Default::default() };
            let _ = q.suggest(&env, source_span, expr, pos);
        });
        guarded("signature_help", off, &mut || {
            let _ = completion::signature_help(&env, source_span, expr, pos);
        });
        guarded("get_metadata", off, &mut || {
            let _ = completion::get_metadata(&value.metadata_map, source_span, expr, pos);
        });
        guarded("suggest_metadata", off, &mut || {
            let _ = completion::suggest_metadata(&value.metadata_map, &env, source_span, expr, pos, "v1");
        });
        off += stride;
    }
    guarded("all_symbols", 0, &mut || {
        let _ = completion::all_symbols(source_span, expr);
    });
    if check_agreement && well_typed {
        let mut w = Walk { occs: vec![], binders: BTreeSet::new(), scope: vec![], binds: vec![], regions: vec![] };
        w.expr(expr);
        for o in &w.occs {
            let (a, b) = (o.span.start().to_usize(), o.span.end().to_usize());
            if a < base || b > base + src.len() || a >= b {
                continue;
            }
            // the text under the span must be the identifier (skips operators written infix etc.)
            if src.get(a - base..b - base) != Some(o.name.as_str()) {
                continue;
            }
            rep.ident_positions += 1;
            for p in [a, (a + b) / 2, b - 1] {
                let pos = BytePos::from(p as u32);
                rep.nodes_checked += 1;
                match completion::find(&env, source_span, expr, pos) {
                    Ok(gluon::either::Either::Right(t)) => {
                        if t.to_string() != o.typ {
                            if rep.disagreements.len() < 5 {
                                rep.disagreements.push(format!(
                                    "find at offset {} (identifier `{}`) reports type `{}` but the checker inferred `{}`",
                                    p - base,
                                    o.name,
                                    t.to_string().replace('\n', " "),
                                    o.typ.replace('\n', " ")
                                ));
                            }
                        }
                    }
                    Ok(gluon::either::Either::Left(k)) => {
                        if rep.disagreements.len() < 5 {
                            rep.disagreements.push(format!("find at offset {} (identifier `{}`) reports a kind: {}", p - base, o.name, k));
                        }
                    }
                    Err(()) => {
                        if rep.disagreements.len() < 5 {
                            rep.disagreements.push(format!("find at offset {} (identifier `{}`) finds nothing", p - base, o.name));
                        }
                    }
                }
            }
            // suggestions while typing this identifier: every program binder among them must be visible here
            let pos = BytePos::from(b as u32);
            let q = completion::SuggestionQuery { prefix_filter: false, ..Default::default() };
            for s in q.suggest(&env, source_span, expr, pos) {
                if w.binders.contains(&s.name) && !o.visible.contains(&s.name) {
                    if rep.disagreements.len() < 5 {
                        rep.disagreements.push(format!(
                            "at offset {} (end of identifier `{}`) the name `{}` is suggested but it is not in scope there (visible: {:?})",
                            b - base,
                            o.name,
                            s.name,
                            o.visible
                        ));
                    }
                }
            }
        }
        // binding occurrences: pattern variables and parameters
        for (span, name, typ) in &w.binds {
            let (a, b) = (span.start().to_usize(), span.end().to_usize());
            if a < base || b > base + src.len() || a >= b || src.get(a - base..b - base) != Some(name.as_str()) {
                continue;
            }
            rep.ident_positions += 1;
            for p in [a, (a + b) / 2, b - 1] {
                rep.nodes_checked += 1;
                match completion::find(&env, source_span, expr, BytePos::from(p as u32)) {
                    Ok(gluon::either::Either::Right(t)) if t.to_string() == *typ => {}
                    other => {
                        if rep.disagreements.len() < 5 {
                            let got = match other {
                                Ok(gluon::either::Either::Right(t)) => format!("type `{}`", t.to_string().replace('\n', " ")),
                                Ok(gluon::either::Either::Left(k)) => format!("a kind `{}`", k),
                                Err(()) => "nothing".to_string(),
                            };
                            rep.disagreements.push(format!(
                                "find at offset {} (binding occurrence of `{}`) reports {} but the checker stored `{}`",
                                p - base,
                                name,
                                got,
                                typ.replace('\n', " ")
                            ));
                        }
                    }
                }
            }
        }
        // suggestions at the first byte of every keyword that starts an expression (`let`, `rec`,
        // `match`, `if`): a name bound by the program may only be suggested inside one of the
        // regions in which a binder of that name is visible.  (Positions on punctuation between
        // a pattern and its body are left out: what is in scope "at the arrow" is debatable.)
        for (off, word) in expression_keywords(src) {
            let p = base + off;
            let q = completion::SuggestionQuery { prefix_filter: false, ..Default::default() };
            rep.nodes_checked += 1;
            for s in q.suggest(&env, source_span, expr, BytePos::from(p as u32)) {
                if !w.binders.contains(&s.name) {
                    continue;
                }
                let visible = w.regions.iter().any(|(n, r)| *n == s.name && r.start().to_usize() <= p && p <= r.end().to_usize());
                if !visible && rep.disagreements.len() < 5 {
                    rep.disagreements.push(format!(
                        "at offset {} (keyword `{}`) the name `{}` is suggested but no binding of it is in scope there",
                        off, word, s.name
                    ));
                }
            }
        }
    }
    None
}

/// (offset, word) of the keywords `let`, `rec`, `match`, `if` outside comments and literals
fn expression_keywords(src: &str) -> Vec<(usize, &'static str)> {
    let b = src.as_bytes();
    let mut out = vec![];
    let mut i = 0;
    while i < b.len() {
        match b[i] {
            b'/' if i + 1 < b.len() && b[i + 1] == b'/' => {
                while i < b.len() && b[i] != b'\n' {
                    i += 1;
                }
            }
            b'/' if i + 1 < b.len() && b[i + 1] == b'*' => {
                i += 2;
                while i + 1 < b.len() && !(b[i] == b'*' && b[i + 1] == b'/') {
                    i += 1;
                }
                i += 2;
            }
            b'"' => {
                i += 1;
                while i < b.len() && b[i] != b'"' {
                    if b[i] == b'\\' {
                        i += 1;
                    }
                    i += 1;
                }
                i += 1;
            }
            b'\'' => {
                // a character literal (identifiers with a prime are consumed as words below)
                i += 1;
                while i < b.len() && b[i] != b'\'' {
                    if b[i] == b'\\' {
                        i += 1;
                    }
                    i += 1;
                }
                i += 1;
            }
            c if c.is_ascii_alphabetic() || c == b'_' => {
                let st = i;
                while i < b.len() && (b[i].is_ascii_alphanumeric() || b[i] == b'_' || b[i] == b'\'') {
                    i += 1;
                }
                for w in ["let", "rec", "match", "if"] {
                    if &src[st..i] == w {
                        out.push((st, w));
                    }
                }
            }
            _ => i += 1,
        }
    }
    out
}

impl Property for C20 {
    fn id(&self) -> &'static str {
        "C20"
    }
    fn plan(&self, tier: Tier) -> Plan {
        Plan {
            random_cases: tier.pick(6000, 30_000),
            tape_len: tier.pick(200, 400),
            watchdog_s: 300,
            worker_recycle: 300,
            worker_stack: 64 << 20,
            ..Plan::default()
        }
    }
    fn gen(&self, t: &mut Tape, tier: Tier) -> Value {
        let style = style_from(t);
        let cfg = GenCfg { max_size: tier.pick(25, 45), hash_only: true, ..GenCfg::default() };
        let prog = gen_program(t, cfg);
        // a unit pattern in front now and then (a tuple pattern without elements)
        let header = if t.chance(1, 6) { format!("{}let () = ()\n", NO_PRELUDE_HEADER) } else { NO_PRELUDE_HEADER.to_string() };
        let src = print_program(&prog, style, &header);
        // variants: truncations and deletions are chosen by the tape as well (a sample of the
        // token boundaries; the thorough tier takes more)
        let starts = token_starts(&src);
        let nvar = tier.pick(6, 16);
        let mut variants = vec![];
        for _ in 0..nvar {
            if starts.is_empty() {
                break;
            }
            let k = t.pick(starts.len());
            if t.chance(1, 2) {
                variants.push(json!({"kind": "truncate", "at": starts[k]}));
            } else {
                variants.push(json!({"kind": "delete", "at": starts[k]}));
            }
        }
        json!({"src": src, "variants": variants})
    }
    fn exec(&self, ctx: &mut WorkerCtx, case: &Value) -> Value {
        if ctx.state.is_none() {
            ctx.state = Some(Box::new(gl::new_vm(Settings { prelude: false, ..Settings::default() })));
        }
        let vm = ctx.state.as_ref().unwrap().downcast_ref::<gluon::RootedThread>().unwrap().clone();
        let src = case["src"].as_str().unwrap();
        let mut rep = Report { queries: 0, panics: vec![], disagreements: vec![], ident_positions: 0, nodes_checked: 0 };
        let rejected = run_queries(&vm, "c20", src, true, 1, &mut rep);
        let mut variant_notes = vec![];
        for (i, v) in case["variants"].as_array().cloned().unwrap_or_default().iter().enumerate() {
            let at = v["at"].as_u64().unwrap_or(0) as usize;
            if at >= src.len() || !src.is_char_boundary(at) {
                continue;
            }
            let text = if v["kind"] == "truncate" {
                src[..at].to_string()
            } else {
                let e = token_end(src, at);
                format!("{}{}", &src[..at], &src[e..])
            };
            let before = rep.panics.len();
            let r = run_queries(&vm, &format!("c20v{}", i), &text, false, 1, &mut rep);
            if rep.panics.len() > before {
                variant_notes.push(json!({"variant": v, "text": text}));
            }
            let _ = r;
        }
        json!({
            "queries": rep.queries, "panics": rep.panics, "disagreements": rep.disagreements,
            "ident_positions": rep.ident_positions, "agreement_checks": rep.nodes_checked,
            "rejected": rejected, "panicking_variants": variant_notes,
        })
    }
    fn judge(&self, case: &Value, obs: &Obs, kf: &KnownFindings) -> Judged {
        let mut j = Judged::pass();
        let src = case["src"].as_str().unwrap_or("");
        let v = match obs {
            Obs::Ok(v) => v,
            Obs::TimedOut => {
                j.verdict = Verdict::Inconclusive("watchdog".into());
                return j;
            }
            other => {
                let (k, text) = match other {
                    Obs::Panicked { msg, loc } => ("panic", format!("{} at {}", msg, loc)),
                    Obs::Died { status, tail } => ("died", format!("{} {}", status, tail)),
                    _ => ("", String::new()),
                };
                j.verdict = match kf.matches("C20", k, &text, &[]) {
                    Some(id) => Verdict::Known(id),
                    None => Verdict::Violation(format!("an editor query (or checking the program for it) killed or panicked the host: {}\nsource:\n{}", other.to_json(), src)),
                };
                return j;
            }
        };
        let panics: Vec<String> = serde_json::from_value(v["panics"].clone()).unwrap_or_default();
        if let Some(p) = panics.first() {
            let text = v["panicking_variants"].as_array().and_then(|a| a.first()).map(|x| x["text"].as_str().unwrap_or("").to_string());
            j.verdict = match kf.matches("C20", "panic", p, &[]) {
                Some(id) => Verdict::Known(id),
                None => Verdict::Violation(format!(
                    "an editor query panicked: {}\n(all: {:?})\nsource:\n{}",
                    p,
                    panics,
                    text.unwrap_or_else(|| src.to_string())
                )),
            };
            return j;
        }
        let dis: Vec<String> = serde_json::from_value(v["disagreements"].clone()).unwrap_or_default();
        if let Some(d) = dis.first() {
            j.verdict = match kf.matches("C20", "wrong_value", d, &[]) {
                Some(id) => Verdict::Known(id),
                None => Verdict::Violation(format!("{}\n(all: {:?})\nsource:\n{}", d, dis, src)),
            };
            return j;
        }
        j.evals = v["queries"].as_u64().unwrap_or(1);
        if v["rejected"].is_string() {
            j.classes.push("complete_program_rejected_without_tree".into());
        }
        let idents = v["ident_positions"].as_u64().unwrap_or(0);
        if idents > 0 {
            j.classes.push("agreement_checked".into());
            j.nontrivial.push(fnv(src.as_bytes()));
        }
        j.classes.push(format!("variants:{}", case["variants"].as_array().map(|a| a.len()).unwrap_or(0)));
        j
    }
    fn rule(&self) -> String {
        "generated programs (implicit prelude off) in complete form plus 6 (quick) / 16 (thorough) variants truncated at / with one token deleted at tape-chosen token boundaries; on the (possibly salvaged) typechecked tree every byte offset 0..=len+1 (including offsets inside multi-byte characters) is queried with find, find_all_symbols, symbol, suggest, SuggestionQuery{prefix_filter:false}, signature_help, get_metadata, suggest_metadata, and all_symbols once: no panic. On complete well-typed programs, at the first, middle and last byte of every identifier occurrence and of every binding occurrence (pattern variables, function and lambda parameters) `find` must report exactly the type the checker stored for it; at the end of an identifier occurrence and at the first byte of every `let` / `rec` / `match` / `if` keyword no name bound by the program may be suggested unless a binding of it is lexically visible there (scoping recomputed by the harness). Non-trivial = program with at least one checked identifier occurrence; distinct by source hash".into()
    }
    fn assumptions(&self) -> Vec<String> {
        vec![
            "the type `the checker inferred` for an occurrence is the one it stores in the typed tree; `find` is compared with it textually".into(),
            "suggested names that are not bound by the program (globals of the environment) are not judged".into(),
        ]
    }
    fn describe(&self, case: &Value, obs: &Obs) -> Value {
        json!({"src": case["src"], "variants": case["variants"], "obs": obs.to_json()})
    }
}

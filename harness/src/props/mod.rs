use crate::engine::Property;

pub mod common;
pub mod c01;
pub mod c02;
pub mod c03;
pub mod c04;
pub mod c05;
pub mod c06;
pub mod c07;
pub mod c08;
pub mod c09;
pub mod c10;
pub mod c11;
pub mod c12;
pub mod c13;
pub mod c14;
pub mod c15;
pub mod c16;
pub mod c17;
pub mod c18;
pub mod c19;
pub mod c20;

pub fn lookup(id: &str) -> Option<&'static dyn Property> {
    match id {
        "C01" => Some(&c01::C01),
        "C02" => Some(&c02::C02),
        "C03" => Some(&c03::C03),
        "C04" => Some(&c04::C04),
        "C05" => Some(&c05::C05),
        "C06" => Some(&c06::C06),
        "C07" => Some(&c07::C07),
        "C08" => Some(&c08::C08),
        "C09" => Some(&c09::C09),
        "C10" => Some(&c10::C10),
        "C11" => Some(&c11::C11),
        "C12" => Some(&c12::C12),
        "C13" => Some(&c13::C13),
        "C14" => Some(&c14::C14),
        "C15" => Some(&c15::C15),
        "C16" => Some(&c16::C16),
        "C17" => Some(&c17::C17),
        "C18" => Some(&c18::C18),
        "C19" => Some(&c19::C19),
        "C20" => Some(&c20::C20),
        _ => None,
    }
}

use crate::engine::Property;

pub mod c06;

pub fn lookup(id: &str) -> Option<&'static dyn Property> {
    match id {
        "C06" => Some(&c06::C06),
        _ => None,
    }
}

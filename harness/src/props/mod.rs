use crate::engine::Property;

pub mod c06;
pub mod c09;

pub fn lookup(id: &str) -> Option<&'static dyn Property> {
    match id {
        "C06" => Some(&c06::C06),
        "C09" => Some(&c09::C09),
        _ => None,
    }
}

use crate::engine::Property;

pub mod common;
pub mod c01;
pub mod c02;
pub mod c04;
pub mod c06;
pub mod c09;

pub fn lookup(id: &str) -> Option<&'static dyn Property> {
    match id {
        "C01" => Some(&c01::C01),
        "C02" => Some(&c02::C02),
        "C04" => Some(&c04::C04),
        "C06" => Some(&c06::C06),
        "C09" => Some(&c09::C09),
        _ => None,
    }
}

//! C15 — modules: evaluated once, cycles rejected, reloads never stale.
//!
//! Stateful / model-based: a generated history of source edits over a small module graph is
//! applied to one long-lived VM; after every step the VM's answer is compared (1) with a model
//! that computes what the latest sources mean and (2) with a fresh VM that is given the latest
//! sources only.
use std::collections::{BTreeMap, BTreeSet};

use gluon::query::CompilationBase;
use gluon::ThreadExt;
use serde::{Deserialize, Serialize};
use serde_json::{json, Value};

use crate::engine::*;
use crate::gl::{self, Outcome, Settings, Val};
use crate::props::common::*;
use crate::tape::{fnv, Tape};

pub struct C15;

const NMOD: usize = 6;
/// names that may be imported although (not yet) defined
const NNAMES: usize = 8;

#[derive(Clone, Copy, Debug, Serialize, Deserialize, PartialEq, Eq)]
pub enum Kind {
    Int,
    Str,
    Variant,
    Func,
}

#[derive(Clone, Copy, Debug, Serialize, Deserialize, PartialEq, Eq)]
pub enum Use {
    /// `mj.v` used as an Int
    V,
    /// `mj.f 1`
    F,
    /// `match mj.v with | Aj x -> x | Bj -> 0` (needs mj to export its variant type)
    M,
    /// `mj.s` copied into field d
    S,
    /// `mj.b`
    B,
}

#[derive(Clone, Copy, Debug, Serialize, Deserialize, PartialEq, Eq)]
pub enum Broken {
    No,
    TypeError,
    RuntimeError,
}

#[derive(Clone, Debug, Serialize, Deserialize, PartialEq, Eq)]
pub struct Spec {
    pub id: usize,
    /// version constant, distinct per edit
    pub k: i64,
    pub kind: Kind,
    pub uses: Vec<(usize, Use)>,
    pub broken: Broken,
}

fn mname(i: usize) -> String {
    format!("m{}", i)
}

pub fn source(s: &Spec) -> String {
    let i = s.id;
    let mut o = String::new();
    o.push_str("let h = import! h\n");
    let mut imported = BTreeSet::new();
    for (j, u) in &s.uses {
        if imported.insert(*j) {
            o.push_str(&format!("let m{j} = import! m{j}\n", j = j));
        }
        if *u == Use::M {
            // bring the constructors into scope
            if imported.insert(1000 + *j) {
                o.push_str(&format!("let {{ T{j} }} = m{j}\n", j = j));
            }
        }
    }
    if s.kind == Kind::Variant {
        o.push_str(&format!("type T{i} = | A{i} Int | B{i}\n", i = i));
    }
    if s.broken == Broken::RuntimeError {
        o.push_str(&format!("let _ = h.fail {}\n", i));
    }
    o.push_str(&format!("let _ = h.tick {}\n", i));
    let mut base = format!("{}", s.k);
    let mut d = "\"\"".to_string();
    for (n, (j, u)) in s.uses.iter().enumerate() {
        match u {
            Use::V => base.push_str(&format!(" #Int+ m{}.v", j)),
            Use::B => base.push_str(&format!(" #Int+ m{}.b", j)),
            Use::F => base.push_str(&format!(" #Int+ m{}.f 1", j)),
            Use::M => {
                o.push_str(&format!(
                    "let u{n} =\n    match m{j}.v with\n    | A{j} x -> x\n    | B{j} -> 0\n",
                    n = n,
                    j = j
                ));
                base.push_str(&format!(" #Int+ u{}", n));
            }
            Use::S => d = format!("m{}.s", j),
        }
    }
    o.push_str(&format!("let base : Int = {}\n", base));
    if s.broken == Broken::TypeError {
        o.push_str("let wrong : Int = \"not an int\"\n");
    }
    let v = match s.kind {
        Kind::Int => "base".to_string(),
        Kind::Str => format!("\"s{}\"", s.k),
        Kind::Variant => format!("A{} base", i),
        Kind::Func => "\\x -> x #Int+ base".to_string(),
    };
    o.push_str(&format!("let v = {}\n", v));
    let tfield = if s.kind == Kind::Variant { format!("T{}, ", i) } else { String::new() };
    o.push_str(&format!(
        "{{ {}v, b = base, s = \"m{}.{}\", d = {}, f = \\x -> x #Int+ {} }}\n",
        tfield, i, s.k, d, s.k
    ));
    o
}

#[derive(Clone, Debug, Serialize, Deserialize)]
pub enum Step {
    /// replace the source through `load_script` (registers and evaluates at once)
    Set { spec: Spec, src: String },
    /// replace the source through `add_module` only
    SetQuiet { spec: Spec, src: String },
    /// evaluate an expression importing these modules; `same_name`: reuse one expression name
    Eval { mods: Vec<usize>, src: String, same_name: bool },
}

fn eval_source(mods: &[usize]) -> String {
    let mut o = String::new();
    let mut seen = BTreeSet::new();
    for m in mods {
        if seen.insert(*m) {
            o.push_str(&format!("let m{m} = import! m{m}\n", m = m));
        }
    }
    let mut fields = vec![];
    for m in &seen {
        fields.push(format!(
            "v{m} = m{m}.v, b{m} = m{m}.b, s{m} = m{m}.s, d{m} = m{m}.d, f{m} = m{m}.f 1",
            m = m
        ));
    }
    o.push_str(&format!("{{ {} }}\n", fields.join(", ")));
    o
}

// ---- model --------------------------------------------------------------------------------

#[derive(Clone, Debug, PartialEq, Eq, PartialOrd, Ord)]
pub enum Cause {
    Missing(usize),
    IllTyped(usize),
    Runtime(usize),
    Cycle(Vec<usize>),
}

#[derive(Clone, Debug)]
pub struct MVal {
    kind: Kind,
    base: i64,
    k: i64,
    s: String,
    d: String,
}

pub struct Model {
    pub specs: BTreeMap<usize, Spec>,
}

impl Model {
    /// evaluates module `i`; `path` is the chain of modules being imported
    fn eval(
        &self,
        i: usize,
        path: &mut Vec<usize>,
        memo: &mut BTreeMap<usize, Result<MVal, BTreeSet<Cause>>>,
    ) -> Result<MVal, BTreeSet<Cause>> {
        if let Some(p) = path.iter().position(|x| *x == i) {
            let mut c = BTreeSet::new();
            c.insert(Cause::Cycle(path[p..].to_vec()));
            return Err(c);
        }
        if let Some(r) = memo.get(&i) {
            return r.clone();
        }
        let spec = match self.specs.get(&i) {
            Some(s) => s.clone(),
            None => {
                let mut c = BTreeSet::new();
                c.insert(Cause::Missing(i));
                return Err(c);
            }
        };
        path.push(i);
        let mut causes = BTreeSet::new();
        let mut base = spec.k;
        let mut d = String::new();
        let mut ill = spec.broken == Broken::TypeError;
        let mut in_cycle = false;
        for (j, u) in &spec.uses {
            match self.eval(*j, path, memo) {
                Ok(mv) => match u {
                    Use::V => {
                        if mv.kind == Kind::Int {
                            base = base.wrapping_add(mv.base)
                        } else {
                            ill = true
                        }
                    }
                    Use::B => base = base.wrapping_add(mv.base),
                    Use::F => base = base.wrapping_add(1 + mv.k),
                    Use::M => {
                        if mv.kind == Kind::Variant {
                            base = base.wrapping_add(mv.base)
                        } else {
                            ill = true
                        }
                    }
                    Use::S => d = mv.s.clone(),
                },
                Err(cs) => {
                    if cs.iter().any(|c| matches!(c, Cause::Cycle(_))) {
                        in_cycle = true;
                    }
                    causes.extend(cs);
                }
            }
        }
        path.pop();
        let r = if !causes.is_empty() {
            Err(causes)
        } else if ill {
            let mut c = BTreeSet::new();
            c.insert(Cause::IllTyped(i));
            Err(c)
        } else if spec.broken == Broken::RuntimeError {
            let mut c = BTreeSet::new();
            c.insert(Cause::Runtime(i));
            Err(c)
        } else {
            Ok(MVal { kind: spec.kind, base, k: spec.k, s: format!("m{}.{}", i, spec.k), d })
        };
        // results that depend on the import path (cycles) are not memoised
        if !in_cycle {
            memo.insert(i, r.clone());
        }
        r
    }

    pub fn eval_expr(&self, mods: &[usize]) -> Result<Val, BTreeSet<Cause>> {
        let seen: BTreeSet<usize> = mods.iter().copied().collect();
        let mut memo = BTreeMap::new();
        let mut causes = BTreeSet::new();
        let mut fields = vec![];
        for m in &seen {
            let mut path = vec![];
            match self.eval(*m, &mut path, &mut memo) {
                Ok(mv) => {
                    let v = match mv.kind {
                        Kind::Int => Val::Int(mv.base),
                        Kind::Str => Val::Str(format!("s{}", mv.k)),
                        Kind::Variant => Val::Tag(format!("A{}", m), vec![Val::Int(mv.base)]),
                        Kind::Func => Val::Fun,
                    };
                    fields.push((format!("v{}", m), v));
                    fields.push((format!("b{}", m), Val::Int(mv.base)));
                    fields.push((format!("s{}", m), Val::Str(mv.s.clone())));
                    fields.push((format!("d{}", m), Val::Str(mv.d.clone())));
                    fields.push((format!("f{}", m), Val::Int(1 + mv.k)));
                }
                Err(cs) => causes.extend(cs),
            }
        }
        if causes.is_empty() {
            Ok(Val::Record(fields))
        } else {
            Err(causes)
        }
    }
}

fn mentions(text: &str, c: &Cause) -> bool {
    match c {
        Cause::Missing(i) => text.contains(&format!("Could not find module 'm{}'", i)),
        Cause::IllTyped(i) => {
            // the diagnostic is located in the ill-typed module's source
            text.contains(&format!("m{}:", i)) || text.contains(&format!("m{}.glu", i))
        }
        Cause::Runtime(i) => text.contains(&format!("host failure {}", i)),
        Cause::Cycle(ms) => {
            text.contains("cyclic dependency") && ms.iter().any(|m| text.contains(&format!("'m{}'", m)))
        }
    }
}

// ---- generation ------------------------------------------------------------------------------

fn gen_spec(t: &mut Tape, id: usize, k: i64, existing: &BTreeSet<usize>, acyclic_bias: bool) -> Spec {
    let kind = *t.choose(&[Kind::Int, Kind::Int, Kind::Variant, Kind::Str, Kind::Func]);
    let n_uses = t.pick(4);
    let mut uses = vec![];
    for _ in 0..n_uses {
        // mostly lower-numbered existing modules (acyclic), sometimes anything (cycles, missing)
        let wild = t.chance(1, if acyclic_bias { 8 } else { 3 });
        let j = if wild {
            t.pick(NNAMES)
        } else {
            let lower: Vec<usize> = existing.iter().copied().filter(|x| *x < id).collect();
            if lower.is_empty() {
                continue;
            }
            *t.choose(&lower)
        };
        let u = *t.choose(&[Use::B, Use::V, Use::F, Use::S, Use::M, Use::B]);
        uses.push((j, u));
    }
    let broken = match t.pick(12) {
        10 => Broken::TypeError,
        11 => Broken::RuntimeError,
        _ => Broken::No,
    };
    Spec { id, k, kind, uses, broken }
}

impl Property for C15 {
    fn id(&self) -> &'static str {
        "C15"
    }
    fn plan(&self, tier: Tier) -> Plan {
        Plan {
            random_cases: tier.pick(30_000, 600_000),
            tape_len: tier.pick(200, 400),
            watchdog_s: 60,
            worker_recycle: 300,
            ..Plan::default()
        }
    }
    fn gen(&self, t: &mut Tape, tier: Tier) -> Value {
        let n = 2 + t.pick(NMOD - 1);
        let mut existing = BTreeSet::new();
        let mut steps = vec![];
        let mut k = 100;
        let mut specs: BTreeMap<usize, Spec> = BTreeMap::new();
        let quiet_init = t.chance(1, 2);
        for i in 0..n {
            let spec = gen_spec(t, i, k, &existing, true);
            k += 100;
            existing.insert(i);
            let src = source(&spec);
            specs.insert(i, spec.clone());
            steps.push(if quiet_init { Step::SetQuiet { spec, src } } else { Step::Set { spec, src } });
        }
        let max_steps = tier.pick(8, 14);
        let n_steps = 2 + t.pick(max_steps - 1);
        for _ in 0..n_steps {
            match t.pick(10) {
                0..=4 => {
                    let all: Vec<usize> = existing.iter().copied().collect();
                    let cnt = 1 + t.pick(3);
                    let mut mods = vec![];
                    for _ in 0..cnt {
                        if t.chance(1, 10) {
                            mods.push(t.pick(NNAMES));
                        } else {
                            mods.push(*t.choose(&all));
                        }
                    }
                    let src = eval_source(&mods);
                    steps.push(Step::Eval { mods, src, same_name: t.chance(1, 2) });
                }
                x => {
                    // edit: a fresh spec or a small change of the current one
                    let id = if t.chance(1, 6) { t.pick(NNAMES) } else { *t.choose(&existing.iter().copied().collect::<Vec<_>>()) };
                    let spec = match (specs.get(&id).cloned(), t.pick(6)) {
                        (Some(mut s), 0) => {
                            s.k = k; // value change only
                            s.broken = Broken::No;
                            s
                        }
                        (Some(mut s), 1) => {
                            s.k = k; // type change
                            s.kind = *t.choose(&[Kind::Str, Kind::Int, Kind::Variant, Kind::Func]);
                            s
                        }
                        (Some(mut s), 2) => {
                            s.k = k; // add an edge (possibly closing a cycle)
                            let j = t.pick(NNAMES.min(n + 1));
                            let u = *t.choose(&[Use::B, Use::F, Use::S, Use::V, Use::M]);
                            s.uses.push((j, u));
                            s
                        }
                        (Some(mut s), 3) => {
                            s.k = k; // remove an edge / repair
                            if !s.uses.is_empty() {
                                let p = t.pick(s.uses.len());
                                s.uses.remove(p);
                            }
                            s.broken = Broken::No;
                            s
                        }
                        (Some(mut s), 4) => {
                            s.k = k; // break
                            s.broken = if t.chance(1, 2) { Broken::TypeError } else { Broken::RuntimeError };
                            s
                        }
                        _ => gen_spec(t, id, k, &existing, false),
                    };
                    k += 100;
                    existing.insert(id);
                    let src = source(&spec);
                    specs.insert(id, spec.clone());
                    steps.push(if x >= 8 { Step::SetQuiet { spec, src } } else { Step::Set { spec, src } });
                }
            }
        }
        // always end with an evaluation so that the last edits are observed
        let all: Vec<usize> = existing.iter().copied().collect();
        let mods = vec![*t.choose(&all), *t.choose(&all)];
        let src = eval_source(&mods);
        steps.push(Step::Eval { mods, src, same_name: false });
        json!({ "steps": steps })
    }

    fn exec(&self, _ctx: &mut WorkerCtx, case: &Value) -> Value {
        let steps: Vec<Step> = serde_json::from_value(case["steps"].clone()).unwrap();
        let settings = Settings { prelude: false, ..Settings::default() };
        let vm = gl::new_vm(settings);
        let mut latest: BTreeMap<usize, String> = BTreeMap::new();
        let mut out = vec![];
        let fresh_vm = |latest: &BTreeMap<usize, String>, except: Option<usize>| {
            let f = gl::new_vm(settings);
            {
                let mut db = f.get_database_mut();
                for (i, src) in latest {
                    if Some(*i) != except {
                        db.add_module(mname(*i), src);
                    }
                }
            }
            f
        };
        let load = |vm: &gluon::Thread, name: &str, src: &str| -> Outcome {
            match vm.load_script(name, src) {
                Ok(()) => Outcome::Value { val: Val::unit(), ty: String::new() },
                Err(e) => {
                    let (class, msg) = gl::classify(&e);
                    Outcome::Fail { class, msg }
                }
            }
        };
        for (n, st) in steps.iter().enumerate() {
            let _ = gl::take_host_log();
            match st {
                Step::Set { spec, src } => {
                    let r = load(&vm, &mname(spec.id), src);
                    let ticks = gl::take_host_log();
                    latest.insert(spec.id, src.clone());
                    let f = fresh_vm(&latest, Some(spec.id));
                    let fr = load(&f, &mname(spec.id), src);
                    let _ = gl::take_host_log();
                    out.push(json!({"res": r, "ticks": log_to_json(&ticks), "fresh": fr}));
                }
                Step::SetQuiet { spec, src } => {
                    vm.get_database_mut().add_module(mname(spec.id), src);
                    latest.insert(spec.id, src.clone());
                    out.push(json!({}));
                }
                Step::Eval { src, same_name, .. } => {
                    let name = if *same_name { "main".to_string() } else { format!("e{}", n) };
                    let r = gl::run(&vm, &name, src);
                    let ticks = gl::take_host_log();
                    let f = fresh_vm(&latest, None);
                    let fr = gl::run(&f, &name, src);
                    let _ = gl::take_host_log();
                    out.push(json!({"res": r, "ticks": log_to_json(&ticks), "fresh": fr}));
                }
            }
        }
        json!({ "steps": out })
    }

    fn judge(&self, case: &Value, obs: &Obs, kf: &KnownFindings) -> Judged {
        let mut j = Judged::pass();
        let steps: Vec<Step> = serde_json::from_value(case["steps"].clone()).unwrap_or_default();
        let v = match obs {
            Obs::Ok(v) => v,
            Obs::TimedOut => {
                // nothing in the workload waits; a cycle that hangs ends up here
                let has_cycle = history_has_cycle(&steps);
                j.verdict = if has_cycle {
                    Verdict::Violation(format!(
                        "no answer within the watchdog for a history with a cyclic import (hang?)\n{}",
                        show_history(&steps, None)
                    ))
                } else {
                    Verdict::Inconclusive("watchdog".into())
                };
                return j;
            }
            other => {
                let (kind, text) = match other {
                    Obs::Panicked { msg, loc } => ("panic", format!("{} at {}", msg, loc)),
                    Obs::Died { status, tail } => ("died", format!("{} {}", status, tail)),
                    _ => ("", String::new()),
                };
                j.verdict = match kf.matches("C15", kind, &text, &[]) {
                    Some(id) => Verdict::Known(id),
                    None => Verdict::Violation(format!(
                        "a module history killed or panicked the host: {}\n{}",
                        other.to_json(),
                        show_history(&steps, None)
                    )),
                };
                return j;
            }
        };
        let obs_steps = v["steps"].as_array().cloned().unwrap_or_default();
        let mut model = Model { specs: BTreeMap::new() };
        let mut epoch_ticks: BTreeMap<i64, u32> = BTreeMap::new();
        let mut evaluated: BTreeSet<usize> = BTreeSet::new();
        let mut stale_risk = false;
        let mut classes = BTreeSet::new();
        let mut evals = 0;
        for (n, st) in steps.iter().enumerate() {
            let o = &obs_steps[n];
            let fail = |msg: String| -> Verdict {
                Verdict::Violation(format!("step {}: {}\n{}", n, msg, show_history(&steps, Some(n))))
            };
            let (mods, is_eval): (Vec<usize>, bool) = match st {
                Step::Set { spec, .. } => {
                    if evaluated.iter().any(|e| depends_on(&model, *e, spec.id)) || evaluated.contains(&spec.id) {
                        stale_risk = true;
                        classes.insert("edit_of_module_an_evaluated_module_imports");
                    }
                    model.specs.insert(spec.id, spec.clone());
                    epoch_ticks.clear();
                    (vec![spec.id], false)
                }
                Step::SetQuiet { spec, .. } => {
                    if evaluated.iter().any(|e| depends_on(&model, *e, spec.id)) || evaluated.contains(&spec.id) {
                        stale_risk = true;
                        classes.insert("edit_of_module_an_evaluated_module_imports");
                    }
                    model.specs.insert(spec.id, spec.clone());
                    epoch_ticks.clear();
                    classes.insert("quiet_edit");
                    continue;
                }
                Step::Eval { mods, .. } => (mods.clone(), true),
            };
            evals += 2;
            let res: Outcome = match serde_json::from_value(o["res"].clone()) {
                Ok(r) => r,
                Err(_) => {
                    j.verdict = Verdict::Inconclusive("malformed observation".into());
                    return j;
                }
            };
            let fresh: Outcome = serde_json::from_value(o["fresh"].clone()).unwrap();
            // (1) once-ness
            for (c, id) in log_from_json(&o["ticks"]) {
                if c == 't' {
                    let e = epoch_ticks.entry(id).or_insert(0);
                    *e += 1;
                    if *e > 1 {
                        j.verdict = fail(format!(
                            "the body of module m{} was evaluated {} times although no source changed in between",
                            id, e
                        ));
                        return j;
                    }
                }
            }
            // (2) the model
            let expected = if is_eval {
                model.eval_expr(&mods)
            } else {
                let mut memo = BTreeMap::new();
                model.eval(mods[0], &mut vec![], &mut memo).map(|_| Val::unit())
            };
            match (&expected, &res) {
                (Ok(ev), Outcome::Value { val, .. }) => {
                    if is_eval && !same_val(ev, val) {
                        j.verdict = fail(format!(
                            "stale or wrong value: the latest sources mean {} but the long-lived VM answered {}",
                            ev.show(),
                            val.show()
                        ));
                        return j;
                    }
                    classes.insert("value");
                    for m in &mods {
                        mark_evaluated(&model, *m, &mut evaluated);
                    }
                }
                (Err(causes), Outcome::Fail { class, msg }) => {
                    if !causes.iter().any(|c| mentions(msg, c)) {
                        j.verdict = fail(format!(
                            "the latest sources fail because of {:?} but the VM's error [{}] names none of these:\n{}",
                            causes, class, msg
                        ));
                        return j;
                    }
                    for c in causes {
                        classes.insert(match c {
                            Cause::Missing(_) => "missing_module",
                            Cause::IllTyped(_) => "ill_typed_dependency",
                            Cause::Runtime(_) => "runtime_failure_in_body",
                            Cause::Cycle(_) => "cycle",
                        });
                    }
                }
                (Ok(ev), other) => {
                    j.verdict = fail(format!(
                        "the latest sources are fine (expected {}) but the long-lived VM answered: {}",
                        ev.show(),
                        show_outcome(other)
                    ));
                    return j;
                }
                (Err(causes), other) => {
                    j.verdict = fail(format!(
                        "the latest sources must fail ({:?}) but the long-lived VM answered: {}",
                        causes,
                        show_outcome(other)
                    ));
                    return j;
                }
            }
            // (3) a fresh VM given the latest sources
            // With a cycle among the imports, which module is blamed and which follow-up
            // diagnostics are listed depends on the order salsa visited the queries (observed:
            // `m1 -> m1` vs `m1 -> m0 -> m1`, different secondary type errors); the property
            // asks for an error naming the cycle (checked above), so only failure-ness is
            // compared there.
            let cyclic = matches!(&expected, Err(cs) if cs.iter().any(|c| matches!(c, Cause::Cycle(_))));
            let agree = if cyclic {
                matches!((&res, &fresh), (Outcome::Fail { .. }, Outcome::Fail { .. }))
            } else {
                same_outcome(&res, &fresh)
            };
            if !agree {
                j.verdict = fail(format!(
                    "long-lived VM and fresh VM disagree\n long-lived: {}\n fresh:      {}",
                    show_full(&res),
                    show_full(&fresh)
                ));
                return j;
            }
        }
        j.evals = evals;
        for c in classes {
            j.classes.push(c.to_string());
        }
        if stale_risk {
            j.nontrivial.push(fnv(serde_json::to_string(&case["steps"]).unwrap().as_bytes()));
        }
        j
    }
    fn rule(&self) -> String {
        "histories of 4-14 steps over up to 8 module names: Set (load_script), SetQuiet (add_module), Eval (run_expr importing 1-3 modules); each module exports {v,b,s,d,f} computed from a per-edit constant and from its imports. After every Set/Eval: (1) no module's tick fires twice between two source changes, (2) the answer equals a Rust model of the latest sources (value, or an error naming a missing / ill-typed / failing module or a cycle through a module on it), (3) the answer (value, type, error class and text) equals a fresh VM's given the latest sources. Non-trivial = the history edits a module that an already evaluated module imports (or that was itself evaluated) and evaluates afterwards; distinct by history hash".into()
    }
    fn assumptions(&self) -> Vec<String> {
        vec![
            "implicit prelude off (modules use #Int+ only), so a fresh VM per comparison is cheap".into(),
            "a module whose body fails at run time is placed before its tick, so once-ness is asserted for successful bodies only".into(),
            "for failing evaluations the model only demands that the error names one of the root causes; the fresh-VM comparison demands equal text".into(),
        ]
    }
    fn describe(&self, case: &Value, obs: &Obs) -> Value {
        let steps: Vec<Step> = serde_json::from_value(case["steps"].clone()).unwrap_or_default();
        json!({"history": show_history(&steps, None), "obs": obs.to_json()})
    }
}

fn same_outcome(a: &Outcome, b: &Outcome) -> bool {
    match (a, b) {
        (Outcome::Value { val: v1, ty: t1 }, Outcome::Value { val: v2, ty: t2 }) => same_val(v1, v2) && t1 == t2,
        (Outcome::Fail { class: c1, msg: m1 }, Outcome::Fail { class: c2, msg: m2 }) => {
            c1 == c2 && strip_cycle_paths(m1) == strip_cycle_paths(m2)
        }
        (x, y) => x == y,
    }
}

fn show_full(o: &Outcome) -> String {
    match o {
        Outcome::Fail { class, msg } => format!("failure [{}] {}", class, msg),
        o => show_outcome(o),
    }
}

fn depends_on(model: &Model, from: usize, target: usize) -> bool {
    let mut seen = BTreeSet::new();
    let mut todo = vec![from];
    while let Some(x) = todo.pop() {
        if !seen.insert(x) {
            continue;
        }
        if let Some(s) = model.specs.get(&x) {
            for (j, _) in &s.uses {
                if *j == target {
                    return true;
                }
                todo.push(*j);
            }
        }
    }
    false
}

fn mark_evaluated(model: &Model, m: usize, evaluated: &mut BTreeSet<usize>) {
    let mut todo = vec![m];
    while let Some(x) = todo.pop() {
        if !evaluated.insert(x) {
            continue;
        }
        if let Some(s) = model.specs.get(&x) {
            for (j, _) in &s.uses {
                todo.push(*j);
            }
        }
    }
}

fn history_has_cycle(steps: &[Step]) -> bool {
    let mut model = Model { specs: BTreeMap::new() };
    for st in steps {
        match st {
            Step::Set { spec, .. } | Step::SetQuiet { spec, .. } => {
                model.specs.insert(spec.id, spec.clone());
                for i in model.specs.keys() {
                    if depends_on(&model, *i, *i) {
                        return true;
                    }
                }
            }
            _ => {}
        }
    }
    false
}

fn show_history(steps: &[Step], upto: Option<usize>) -> String {
    let mut o = String::new();
    for (n, st) in steps.iter().enumerate() {
        if let Some(u) = upto {
            if n > u {
                break;
            }
        }
        match st {
            Step::Set { spec, src } => o.push_str(&format!("[{}] load_script m{}:\n{}\n", n, spec.id, indent(src))),
            Step::SetQuiet { spec, src } => o.push_str(&format!("[{}] add_module m{}:\n{}\n", n, spec.id, indent(src))),
            Step::Eval { src, same_name, .. } => {
                o.push_str(&format!("[{}] run_expr{}:\n{}\n", n, if *same_name { " (name main)" } else { "" }, indent(src)))
            }
        }
    }
    o
}

fn indent(s: &str) -> String {
    s.lines().map(|l| format!("      {}", l)).collect::<Vec<_>>().join("\n")
}

/// The text after "cyclic dependency: " lists the queries salsa had on its stack, which depends on
/// what was memoised before (a long-lived VM prints `m1 -> m1` where a fresh one prints
/// `m1 -> m0 -> m1`).  The property asks for the cycle to be named, which the model checks
/// (a module on the cycle is named); the path itself is not compared between VMs.
fn strip_cycle_paths(s: &str) -> String {
    let mut out = String::new();
    let mut rest = s;
    let key = "cyclic dependency: `";
    while let Some(p) = rest.find(key) {
        out.push_str(&rest[..p + key.len()]);
        rest = &rest[p + key.len()..];
        match rest.find('`') {
            Some(q) => rest = &rest[q..],
            None => break,
        }
    }
    out.push_str(rest);
    out
}

//! C05 — garbage collection is transparent, never frees a reachable value, reclaims garbage.
use std::sync::atomic::Ordering;

use gluon::vm::verif;
use gluon::{RootedThread, ThreadExt};
use serde_json::{json, Value};

use crate::engine::*;
use crate::gen::ast::Program;
use crate::gen::print::print_program;
use crate::gen::prog::{gen_program, GenCfg};
use crate::gl::{self, Outcome, Settings};
use crate::props::c01::style_from;
use crate::props::common::*;
use crate::tape::{fnv, Tape};

pub struct C05;

const PERIODS: &[u64] = &[1, 2, 3, 5, 8, 13, 50];

fn walk_problems(t: &gluon::Thread, label: &str, out: &mut Vec<String>) -> usize {
    let rep = t.verif_walk();
    let owners = t.verif_heap_owners();
    if !rep.freed.is_empty() {
        out.push(format!("{}: {} reachable object(s) had already been swept (dangling pointer)", label, rep.freed.len()));
    }
    let foreign = rep.objects.iter().filter(|(_, o)| !owners.contains(o)).count();
    if foreign > 0 {
        out.push(format!(
            "{}: {} reachable object(s) live in a heap that is neither the thread's nor an ancestor's",
            label, foreign
        ));
    }
    rep.reached
}

thread_local! {
    static IO_VM: std::cell::RefCell<Option<RootedThread>> = std::cell::RefCell::new(None);
}

const LAZY_MODULE_PREFIX: &str = "let { lazy, force } = import! std.lazy\n";

impl Property for C05 {
    fn id(&self) -> &'static str {
        "C05"
    }
    fn plan(&self, tier: Tier) -> Plan {
        Plan {
            random_cases: tier.pick(12_000, 200_000),
            tape_len: tier.pick(420, 800),
            watchdog_s: 120,
            worker_recycle: 150,
            ..Plan::default()
        }
    }
    fn gen(&self, t: &mut Tape, tier: Tier) -> Value {
        let k = if tier == Tier::Quick {
            [1u64, 2, 5, 13][t.pick(4)]
        } else {
            PERIODS[t.pick(PERIODS.len())]
        };
        if t.chance(1, 8) {
            // channel queues and reference cells as the only owners of fresh heap values: an
            // operation sequence of C17's language with run-time built strings as payload
            let b = crate::props::c17::gen_traffic_block(t, tier.pick(24, 40));
            return json!({"k": "chan", "block": b, "period": k});
        }
        let lazy = t.chance(1, 5);
        let cfg = GenCfg {
            max_size: tier.pick(60, 110),
            hash_only: t.chance(1, 3),
            allow_fun_result: lazy || t.chance(1, 4),
            allow_fail: !lazy && t.chance(1, 3),
            allow_host: !lazy,
            no_decls: lazy,
            avoid: known().avoided("C05"),
            ..GenCfg::default()
        };
        let prog = gen_program(t, cfg);
        if lazy {
            // a module-level lazy cell (root heap) whose thunk builds a fresh value when forced from
            // a child thread
            let body = print_program(&prog, style_from(t), "");
            let mut indented = String::new();
            for l in body.lines() {
                indented.push_str("        ");
                indented.push_str(l);
                indented.push('\n');
            }
            let module = format!("{}{{\n    cell = lazy (\\unit_arg ->\n{}    )\n}}\n", LAZY_MODULE_PREFIX, indented);
            return json!({"k": "lazy", "module": module, "prog": prog, "period": k});
        }
        let src = print_program(&prog, style_from(t), "");
        json!({"k": "prog", "prog": prog, "src": src, "period": k})
    }
    fn exec(&self, ctx: &mut WorkerCtx, case: &Value) -> Value {
        if ctx.state.is_none() {
            let vm = gl::new_vm(Settings::default());
            // load the prelude once
            let _ = gl::run(&vm, "warm", "let h = import! h\n1 + 2");
            ctx.state = Some(Box::new(vm));
        }
        let root = ctx.state.as_ref().unwrap().downcast_ref::<RootedThread>().unwrap();
        let k = case["period"].as_u64().unwrap_or(1);
        let mut problems: Vec<String> = vec![];
        verif::GC_STRESS.store(0, Ordering::Relaxed);
        verif::QUARANTINE.store(false, Ordering::Relaxed);
        if case["k"] == "chan" {
            let b: crate::props::c17::Block = serde_json::from_value(case["block"].clone()).unwrap();
            let src = crate::props::c17::program_text(&[b]);
            let io_root = IO_VM.with(|c| c.borrow_mut().get_or_insert_with(|| gl::new_vm(Settings { run_io: true, ..Settings::default() })).clone());
            let _ = gl::take_host_log();
            let c0 = io_root.new_thread().expect("child");
            let out0 = gl::run(&c0, "c05", &src);
            let log0 = gl::take_host_log();
            drop(c0);
            verif::reset_counters();
            verif::QUARANTINE.store(true, Ordering::Relaxed);
            verif::GC_STRESS.store(k, Ordering::Relaxed);
            let c1 = io_root.new_thread().expect("child");
            let out1 = gl::run(&c1, "c05", &src);
            verif::GC_STRESS.store(0, Ordering::Relaxed);
            let log1 = gl::take_host_log();
            let collections = verif::COLLECTIONS.load(Ordering::Relaxed);
            let freed = verif::FREED.load(Ordering::Relaxed);
            walk_problems(&c1, "child after the stressed run", &mut problems);
            c1.collect();
            io_root.collect();
            walk_problems(&c1, "child after explicit collections", &mut problems);
            walk_problems(&io_root, "root after explicit collections", &mut problems);
            drop(c1);
            verif::QUARANTINE.store(false, Ordering::Relaxed);
            return json!({
                "out0": serde_json::to_value(&out0).unwrap(), "log0": log_to_json(&log0),
                "out1": serde_json::to_value(&out1).unwrap(), "log1": log_to_json(&log1),
                "problems": problems, "collections": collections, "freed": freed, "src": src,
            });
        }
        if case["k"] == "lazy" {
            let name = format!("cellmod{}", ctx.cases_done);
            let module = case["module"].as_str().unwrap();
            if let Err(e) = root.load_script(&name, module) {
                return json!({"rejected": format!("[{}] {}", gl::classify(&e).0, e)});
            }
            let user = format!("let {{ force }} = import! std.lazy\nlet m = import! {}\nforce m.cell", name);
            // reference outcome: the same thunk forced on a fresh VM without stress
            let expect = {
                let vm2 = gl::new_vm(Settings::default());
                let _ = vm2.load_script(&name, module);
                gl::run(&vm2, "user", &user)
            };
            verif::reset_counters();
            verif::QUARANTINE.store(true, Ordering::Relaxed);
            verif::GC_STRESS.store(k, Ordering::Relaxed);
            let child = root.new_thread().expect("child");
            let first = gl::run(&child, "user", &user);
            verif::GC_STRESS.store(0, Ordering::Relaxed);
            let collections = verif::COLLECTIONS.load(Ordering::Relaxed);
            walk_problems(&child, "child after forcing", &mut problems);
            walk_problems(root, "root after the child forced the module's lazy", &mut problems);
            child.collect();
            drop(child);
            root.collect();
            walk_problems(root, "root after the child was dropped", &mut problems);
            // force again from the root thread and from a new child: the cached value must be intact
            let again_root = gl::run(root, "user2", &user);
            let child2 = root.new_thread().expect("child");
            let again_child = gl::run(&child2, "user3", &user);
            verif::QUARANTINE.store(false, Ordering::Relaxed);
            return json!({
                "expect": serde_json::to_value(&expect).unwrap(),
                "first": serde_json::to_value(&first).unwrap(),
                "again_root": serde_json::to_value(&again_root).unwrap(),
                "again_child": serde_json::to_value(&again_child).unwrap(),
                "problems": problems, "collections": collections,
            });
        }
        let src = case["src"].as_str().unwrap();
        // 1. baseline
        let c0 = root.new_thread().expect("child");
        let _ = gl::take_host_log();
        let out0 = gl::run(&c0, "c05", src);
        let log0 = gl::take_host_log();
        drop(c0);
        // 2. the same program with a collection at every k-th allocation check, swept blocks
        //    poisoned and quarantined
        verif::reset_counters();
        verif::QUARANTINE.store(true, Ordering::Relaxed);
        verif::GC_STRESS.store(k, Ordering::Relaxed);
        let c1 = root.new_thread().expect("child");
        let kept = c1.run_expr::<gl::Opaque>("c05", src);
        verif::GC_STRESS.store(0, Ordering::Relaxed);
        let log1 = gl::take_host_log();
        let collections = verif::COLLECTIONS.load(Ordering::Relaxed);
        let freed = verif::FREED.load(Ordering::Relaxed);
        let render = |kept: &Result<(gl::Opaque, gluon::base::types::ArcType), gluon::Error>| -> Outcome {
            match kept {
                Ok((v, ty)) => match gl::read_value(&c1, v.get_variant(), ty) {
                    Ok(val) => Outcome::Value { val, ty: ty.to_string() },
                    Err(why) => Outcome::BadShape { why, ty: ty.to_string() },
                },
                Err(e) => {
                    let (class, msg) = gl::classify(e);
                    Outcome::Fail { class, msg }
                }
            }
        };
        let out1 = render(&kept);
        let reached = walk_problems(&c1, "child after the stressed run", &mut problems);
        // 3. the kept handle survives explicit collections of the child and of the root
        c1.collect();
        root.collect();
        walk_problems(&c1, "child after explicit collections", &mut problems);
        walk_problems(root, "root after explicit collections", &mut problems);
        let out1_again = render(&kept);
        drop(kept);
        c1.collect();
        drop(c1);
        // 4. reclamation: identical work on one thread returns to the same heap size
        let c2 = root.new_thread().expect("child");
        let mut mems = vec![];
        for _ in 0..3 {
            let _ = gl::run(&c2, "c05", src);
            c2.collect();
            mems.push(c2.allocated_memory());
        }
        let _ = gl::take_host_log();
        drop(c2);
        verif::QUARANTINE.store(false, Ordering::Relaxed);
        json!({
            "out0": serde_json::to_value(&out0).unwrap(), "log0": log_to_json(&log0),
            "out1": serde_json::to_value(&out1).unwrap(), "log1": log_to_json(&log1),
            "out1_again": serde_json::to_value(&out1_again).unwrap(),
            "problems": problems, "collections": collections, "freed": freed, "reached": reached, "mems": mems,
        })
    }
    fn judge(&self, case: &Value, obs: &Obs, kf: &KnownFindings) -> Judged {
        let mut j = Judged::pass();
        let kind = case["k"].as_str().unwrap_or("prog");
        let k = case["period"].as_u64().unwrap_or(0);
        let chan_src;
        let src = if kind == "lazy" {
            case["module"].as_str().unwrap_or("")
        } else if kind == "chan" {
            chan_src = serde_json::from_value::<crate::props::c17::Block>(case["block"].clone())
                .map(|b| crate::props::c17::block_text(&b, 900_000))
                .unwrap_or_default();
            &chan_src
        } else {
            case["src"].as_str().unwrap_or("")
        };
        let prog: Option<Program> = serde_json::from_value(case["prog"].clone()).ok();
        let feats = vec![format!("kind:{}", kind)];
        j.classes.push(format!("kind:{}", kind));
        j.classes.push(format!("period:{}", k));
        let show = || format!("collect at every {}-th allocation check\nprogram:\n{}", k, src);
        let v = match obs {
            Obs::Ok(v) => v,
            Obs::TimedOut => {
                j.verdict = Verdict::Inconclusive("watchdog".into());
                return j;
            }
            other => {
                let (kd, text) = match other {
                    Obs::Panicked { msg, loc } => ("panic", format!("{} at {}", msg, loc)),
                    Obs::Died { status, tail } => ("died", format!("{} {}", status, tail)),
                    _ => ("", String::new()),
                };
                j.verdict = match kf.matches("C05", kd, &text, &feats) {
                    Some(id) => Verdict::Known(id),
                    None => Verdict::Violation(format!("the host panicked or died under GC stress: {}\n{}", other.to_json(), show())),
                };
                return j;
            }
        };
        if v.get("rejected").is_some() {
            j.classes.push("rejected_by_front_end".into());
            j.verdict = Verdict::Inconclusive(format!("generated module rejected: {}", v["rejected"]));
            return j;
        }
        if let Some(ps) = v["problems"].as_array() {
            if !ps.is_empty() {
                let text = ps.iter().map(|p| p.as_str().unwrap_or("").to_string()).collect::<Vec<_>>().join("; ");
                j.verdict = match kf.matches("C05", "heap_invariant", &text, &feats) {
                    Some(id) => Verdict::Known(id),
                    None => Verdict::Violation(format!("heap walk: {}\n{}", text, show())),
                };
                return j;
            }
        }
        let collections = v["collections"].as_u64().unwrap_or(0);
        if kind == "chan" {
            let b: crate::props::c17::Block = serde_json::from_value(case["block"].clone()).unwrap();
            let out0: Outcome = serde_json::from_value(v["out0"].clone()).unwrap();
            let out1: Outcome = serde_json::from_value(v["out1"].clone()).unwrap();
            if is_front_end_failure(&out0).is_some() {
                j.classes.push("rejected_by_front_end".into());
                j.verdict = Verdict::Inconclusive("generated program rejected".into());
                return j;
            }
            let mut expected = vec![('l', 900_000i64)];
            expected.extend(crate::props::c17::model_log(&b));
            let log0 = log_from_json(&v["log0"]);
            let log1 = log_from_json(&v["log1"]);
            // the unstressed run disagreeing with the model is C17's business; here only the
            // dependence on collections is judged
            if log0 == expected && (log1 != log0 || out0 != out1) {
                j.verdict = Verdict::Violation(format!(
                    "what is read back from channels / references depends on when collections run\n without stress: {} observations {:?}\n with stress:    {} observations {:?}\n{}",
                    show_outcome(&out0), log0, show_outcome(&out1), log1, show()
                ));
                return j;
            }
            if log0 != expected {
                j.classes.push("chan_model_mismatch_left_to_C17".into());
            }
            j.evals = 2;
            for f in crate::props::c17::features(&b) {
                if f == "queue_reuse" || f == "heap_payload" {
                    j.classes.push(f);
                }
            }
            if collections > 0 {
                j.nontrivial.push(fnv(src.as_bytes()) ^ k);
                j.classes.push("collected_during_run".into());
            }
            return j;
        }
        if kind == "lazy" {
            let expect: Outcome = serde_json::from_value(v["expect"].clone()).unwrap();
            for key in ["first", "again_root", "again_child"] {
                let o: Outcome = serde_json::from_value(v[key].clone()).unwrap();
                let same = match (&expect, &o) {
                    (Outcome::Value { val: a, .. }, Outcome::Value { val: b, .. }) => same_val(a, b),
                    (a, b) => a == b,
                };
                if !same {
                    j.verdict = Verdict::Violation(format!(
                        "a module-level lazy value forced from a child thread under GC stress ({}) differs from the unstressed result\n expected {}\n got      {}\n{}",
                        key, show_outcome(&expect), show_outcome(&o), show()
                    ));
                    return j;
                }
            }
            j.evals = 4;
            if collections > 0 {
                j.nontrivial.push(fnv(src.as_bytes()) ^ k);
            }
            return j;
        }
        let out0: Outcome = serde_json::from_value(v["out0"].clone()).unwrap();
        if is_front_end_failure(&out0).is_some() {
            j.classes.push("rejected_by_front_end".into());
            j.verdict = Verdict::Inconclusive("generated program rejected".into());
            return j;
        }
        let out1: Outcome = serde_json::from_value(v["out1"].clone()).unwrap();
        let out1b: Outcome = serde_json::from_value(v["out1_again"].clone()).unwrap();
        let same = |a: &Outcome, b: &Outcome| match (a, b) {
            (Outcome::Value { val: x, .. }, Outcome::Value { val: y, .. }) => same_val(x, y),
            (a, b) => a == b,
        };
        if !same(&out0, &out1) || v["log0"] != v["log1"] {
            j.verdict = Verdict::Violation(format!(
                "the outcome depends on when collections run\n without stress: {} host calls {}\n with stress:    {} host calls {}\n{}",
                show_outcome(&out0), v["log0"], show_outcome(&out1), v["log1"], show()
            ));
            return j;
        }
        if !same(&out1, &out1b) {
            j.verdict = Verdict::Violation(format!(
                "a value kept through a host handle changed after explicit collections\n before: {}\n after:  {}\n{}",
                show_outcome(&out1), show_outcome(&out1b), show()
            ));
            return j;
        }
        let mems: Vec<u64> = v["mems"].as_array().map(|a| a.iter().map(|x| x.as_u64().unwrap_or(0)).collect()).unwrap_or_default();
        if mems.len() == 3 && mems[2] > mems[1] {
            j.verdict = Verdict::Violation(format!(
                "memory is not reclaimed: heap size after identical runs + collect: {:?}\n{}",
                mems, show()
            ));
            return j;
        }
        j.evals = 6;
        let allocating = prog
            .as_ref()
            .map(|p| p.features.iter().any(|f| ["record", "array", "closure_capture", "tuple", "user_variant", "partial_application"].contains(&f.as_str())))
            .unwrap_or(false);
        if collections > 0 && allocating {
            j.nontrivial.push(fnv(src.as_bytes()) ^ k);
            j.classes.push("collected_during_run".into());
        }
        if v["freed"].as_u64().unwrap_or(0) > 0 {
            j.classes.push("objects_swept_during_run".into());
        }
        j
    }
    fn rule(&self) -> String {
        "generated allocating programs evaluated on child threads of one long-lived VM: once normally, once with a collection forced at every k-th allocation check (k in {1,2,5,13} quick, {1,2,3,5,8,13,50} thorough) with swept blocks poisoned and quarantined; outcomes and host calls must agree; after the run and after explicit collections of child and root a Trace-driven walk from the roots of the child and of the root must reach no swept object and no object of a foreign heap; the kept result handle must read the same after the collections; three identical runs + collect on one thread must not grow the heap. An eighth of the cases are operation sequences over channels and references (C17's language) whose payloads are strings built at run time, so that a queue slot or a cell is the only owner of a fresh heap value while collections run; the stressed log must equal the unstressed one. A fifth of the rest instead put the program into a module-level lazy value (root heap) that is forced from a stressed child thread, then from the root and from another child after the first child is dropped. Non-trivial = a collection actually ran during the stressed evaluation of a program that allocates (records, arrays, closures, ...); distinct by (source, k)".into()
    }
    fn assumptions(&self) -> Vec<String> {
        vec![
            "hooks H1 (stress period), H2 (poison + quarantine) and H3 (owner ids, visitor) of the cargo feature `verif`".into(),
            "reclamation is judged on the 2nd vs 3rd identical run (the first run on a thread leaves a persistent residue)".into(),
            "std.reference cells in an older heap are not covered (creating one at module level needs run_io, see DESIGN D3); lazies are".into(),
        ]
    }
    fn describe(&self, case: &Value, obs: &Obs) -> Value {
        json!({"kind": case["k"], "period": case["period"], "src": if case["k"] == "lazy" { case["module"].clone() } else if case["k"] == "chan" { case["block"].clone() } else { case["src"].clone() }, "obs": obs.to_json()})
    }
}

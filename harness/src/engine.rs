//! Driver / worker engine: shards, worker processes, proptest runners over choice tapes,
//! known findings, replay files, evidence.
use std::cell::RefCell;
use std::collections::{BTreeMap, BTreeSet};
use std::io::{BufRead, BufReader, Write};
use std::process::{Child, Command, Stdio};
use std::sync::mpsc::{channel, Receiver, RecvTimeoutError};
use std::sync::{Arc, Mutex};
use std::time::{Duration, Instant};

use proptest::strategy::Strategy;
use proptest::test_runner::{Config, RngSeed, TestCaseError, TestError, TestRunner};
use serde_json::{json, Value};

use crate::tape::{fnv, splitmix, Tape};

pub const VERIF_DIR: &str = "/verif";

#[derive(Clone, Copy, PartialEq, Eq, Debug)]
pub enum Tier {
    Quick,
    Thorough,
}

impl Tier {
    pub fn name(self) -> &'static str {
        match self {
            Tier::Quick => "quick",
            Tier::Thorough => "thorough",
        }
    }
    pub fn pick<T>(self, q: T, t: T) -> T {
        match self {
            Tier::Quick => q,
            Tier::Thorough => t,
        }
    }
}

pub struct Plan {
    /// number of generated (tape-decoded) cases, over all shards
    pub random_cases: usize,
    /// maximal tape length
    pub tape_len: usize,
    /// per-case watchdog in seconds
    pub watchdog_s: u64,
    pub shards: usize,
    /// worker is restarted after this many cases (bounds state carried between cases)
    pub worker_recycle: usize,
    /// stack size of the worker's execution thread (bytes)
    pub worker_stack: usize,
    pub max_shrink_iters: u32,
    /// when set, a case whose worker has consumed this many CPU seconds (its own user + system
    /// time, so machine load does not count) without answering, or whose resident memory passed
    /// `hang_rss_mb`, is reported as `Obs::Hung` instead of waiting for the wall-clock watchdog
    pub hang_cpu_s: Option<u64>,
    pub hang_rss_mb: u64,
}

impl Default for Plan {
    fn default() -> Self {
        Plan {
            random_cases: 1000,
            tape_len: 256,
            watchdog_s: 60,
            shards: 16,
            worker_recycle: 400,
            worker_stack: 256 << 20,
            max_shrink_iters: 300,
            hang_cpu_s: None,
            hang_rss_mb: 3072,
        }
    }
}

#[derive(Clone, Debug)]
pub enum Obs {
    Ok(Value),
    Panicked { msg: String, loc: String },
    Died { status: String, tail: String },
    TimedOut,
    /// the case consumed `cpu_s` CPU seconds (or `rss_mb` MiB) without answering (only with
    /// `Plan::hang_cpu_s`)
    Hung { cpu_s: u64, rss_mb: u64 },
}

impl Obs {
    pub fn to_json(&self) -> Value {
        match self {
            Obs::Ok(v) => json!({"ok": v}),
            Obs::Panicked { msg, loc } => json!({"panicked": {"msg": msg, "loc": loc}}),
            Obs::Died { status, tail } => json!({"died": {"status": status, "tail": tail}}),
            Obs::TimedOut => json!("timed_out"),
            Obs::Hung { cpu_s, rss_mb } => json!({"hung": {"cpu_s": cpu_s, "rss_mb": rss_mb}}),
        }
    }
}

#[derive(Clone, Debug)]
pub enum Verdict {
    Pass,
    /// matches a listed known finding (id)
    Known(String),
    Violation(String),
    Inconclusive(String),
}

#[derive(Clone, Debug)]
pub struct Judged {
    pub verdict: Verdict,
    /// hash identifying the case among the non-trivial ones (None = trivial)
    pub nontrivial: Vec<u64>,
    pub classes: Vec<String>,
    /// how many underlying evaluations this case stands for (batches)
    pub evals: u64,
}

impl Judged {
    pub fn pass() -> Judged {
        Judged {
            verdict: Verdict::Pass,
            nontrivial: vec![],
            classes: vec![],
            evals: 1,
        }
    }
}

pub trait Property: Sync + Send {
    fn id(&self) -> &'static str;
    fn plan(&self, tier: Tier) -> Plan;
    /// enumerated cases (exhaustive cores); `exhaustive_note` says what was enumerated
    fn fixed_cases(&self, _tier: Tier) -> Vec<Value> {
        vec![]
    }
    fn exhaustive_note(&self, _tier: Tier) -> Option<String> {
        None
    }
    fn gen(&self, tape: &mut Tape, tier: Tier) -> Value;
    /// worker side
    fn exec(&self, ctx: &mut WorkerCtx, case: &Value) -> Value;
    /// driver side
    fn judge(&self, case: &Value, obs: &Obs, kf: &KnownFindings) -> Judged;
    fn rule(&self) -> String;
    fn assumptions(&self) -> Vec<String>;
    /// readable rendering of a case for evidence samples
    fn describe(&self, case: &Value, obs: &Obs) -> Value {
        json!({"case": case, "obs": obs.to_json()})
    }
}

/// State a worker keeps between cases (property specific, type erased)
pub struct WorkerCtx {
    pub state: Option<Box<dyn std::any::Any>>,
    pub cases_done: usize,
}

// ------------------------------------------------------------------------------------------
// Known findings

#[derive(Clone, Debug, serde::Deserialize)]
pub struct Signature {
    #[serde(default)]
    pub kind: String,
    #[serde(default)]
    pub site: Option<String>,
    #[serde(default)]
    pub message_contains: Option<String>,
    #[serde(default)]
    pub input_feature: Option<String>,
}

#[derive(Clone, Debug, serde::Deserialize)]
pub struct Finding {
    pub id: String,
    pub property: String,
    pub status: String,
    pub what: String,
    #[serde(default)]
    pub signature: Option<Signature>,
    #[serde(default)]
    pub avoid_feature: Option<String>,
    #[serde(default)]
    pub replay: Option<String>,
    #[serde(default)]
    pub commit: Option<String>,
}

#[derive(Clone, Debug, Default)]
pub struct KnownFindings {
    pub findings: Vec<Finding>,
}

/// the committed known-findings table (read once; never written)
pub fn known() -> &'static KnownFindings {
    static K: std::sync::OnceLock<KnownFindings> = std::sync::OnceLock::new();
    K.get_or_init(KnownFindings::load)
}

impl KnownFindings {
    pub fn load() -> KnownFindings {
        let p = format!("{}/known_findings.json", VERIF_DIR);
        let txt = match std::fs::read_to_string(&p) {
            Ok(t) => t,
            Err(_) => return KnownFindings::default(),
        };
        #[derive(serde::Deserialize)]
        struct F {
            findings: Vec<Finding>,
        }
        let f: F = serde_json::from_str(&txt).expect("known_findings.json must parse");
        KnownFindings {
            findings: f.findings,
        }
    }
    /// Finds a finding with status "known" for `property` whose signature matches.
    /// `kind`: died | panic | wrong_value | hang | not_equal | error ...
    /// `text`: message / stderr tail / description searched for `message_contains`
    /// `features`: feature flags of the input
    pub fn matches(
        &self,
        property: &str,
        kind: &str,
        text: &str,
        features: &[String],
    ) -> Option<String> {
        for f in &self.findings {
            if f.property != property || f.status != "known" {
                continue;
            }
            let sig = match &f.signature {
                Some(s) => s,
                None => continue,
            };
            if !sig.kind.is_empty() && sig.kind != kind {
                continue;
            }
            if let Some(m) = &sig.message_contains {
                if !text.contains(m.as_str()) {
                    continue;
                }
            }
            if let Some(feat) = &sig.input_feature {
                if !features.iter().any(|x| x == feat) {
                    continue;
                }
            }
            if sig.message_contains.is_none() && sig.input_feature.is_none() {
                continue; // a signature must pin something specific
            }
            return Some(f.id.clone());
        }
        None
    }
    pub fn avoided(&self, property: &str) -> Vec<String> {
        self.findings
            .iter()
            .filter(|f| f.property == property && f.status == "known")
            .filter_map(|f| f.avoid_feature.clone())
            .collect()
    }
    pub fn avoid(&self, property: &str, feature: &str) -> bool {
        self.findings.iter().any(|f| {
            f.property == property
                && f.status == "known"
                && f.avoid_feature.as_deref() == Some(feature)
        })
    }
}

// ------------------------------------------------------------------------------------------
// Worker handle (driver side)

pub struct Worker {
    prop: String,
    shard: usize,
    child: Option<Child>,
    rx: Option<Receiver<String>>,
    log_path: String,
    pub sent_since_spawn: usize,
    stack: usize,
    pub hang_cpu_s: Option<u64>,
    pub hang_rss_mb: u64,
}

impl Worker {
    pub fn new(prop: &str, shard: usize, stack: usize) -> Worker {
        let dir = format!("{}/target/wlogs", VERIF_DIR);
        let _ = std::fs::create_dir_all(&dir);
        Worker {
            prop: prop.to_string(),
            shard,
            child: None,
            rx: None,
            log_path: format!("{}/{}-{}-{}.log", dir, prop, std::process::id(), shard),
            sent_since_spawn: 0,
            stack,
            hang_cpu_s: None,
            hang_rss_mb: 3072,
        }
    }
    pub fn with_plan(mut self, plan: &Plan) -> Worker {
        self.hang_cpu_s = plan.hang_cpu_s;
        self.hang_rss_mb = plan.hang_rss_mb;
        self
    }
    fn spawn(&mut self) {
        self.kill();
        let exe = std::env::current_exe().expect("current_exe");
        let log = std::fs::File::create(&self.log_path).expect("worker log");
        let mut child = Command::new(exe)
            .arg("worker")
            .arg(&self.prop)
            .arg(self.stack.to_string())
            .stdin(Stdio::piped())
            .stdout(Stdio::piped())
            .stderr(Stdio::from(log))
            .env("RUST_BACKTRACE", "0")
            .spawn()
            .expect("spawn worker");
        let out = child.stdout.take().unwrap();
        let (tx, rx) = channel();
        std::thread::spawn(move || {
            let mut r = BufReader::new(out);
            loop {
                let mut line = String::new();
                match r.read_line(&mut line) {
                    Ok(0) | Err(_) => break,
                    Ok(_) => {
                        if tx.send(line).is_err() {
                            break;
                        }
                    }
                }
            }
        });
        self.child = Some(child);
        self.rx = Some(rx);
        self.sent_since_spawn = 0;
    }
    pub fn kill(&mut self) {
        if let Some(mut c) = self.child.take() {
            let _ = c.kill();
            let _ = c.wait();
        }
        self.rx = None;
    }
    fn log_tail(&self) -> String {
        let t = std::fs::read(&self.log_path).unwrap_or_default();
        let t = String::from_utf8_lossy(&t).to_string();
        let n = t.len();
        let start = n.saturating_sub(1500);
        let mut s = start;
        while s < n && !t.is_char_boundary(s) {
            s += 1;
        }
        t[s..].to_string()
    }
    pub fn fresh(&mut self) {
        self.spawn();
    }
    pub fn exec(&mut self, case: &Value, watchdog: Duration, recycle: usize) -> Obs {
        if self.child.is_none() || self.sent_since_spawn >= recycle {
            self.spawn();
        }
        self.sent_since_spawn += 1;
        let line = serde_json::to_string(case).unwrap();
        let ok = {
            let c = self.child.as_mut().unwrap();
            let stdin = c.stdin.as_mut().unwrap();
            stdin
                .write_all(line.as_bytes())
                .and_then(|_| stdin.write_all(b"\n"))
                .and_then(|_| stdin.flush())
                .is_ok()
        };
        if !ok {
            return self.died();
        }
        let r = match self.hang_cpu_s {
            None => self.rx.as_ref().unwrap().recv_timeout(watchdog),
            Some(limit) => {
                // poll once a second: CPU time and resident memory of the worker since the case
                // was sent
                let pid = self.child.as_ref().map(|c| c.id()).unwrap_or(0);
                let (cpu0, _) = proc_cpu_rss(pid);
                let t0 = std::time::Instant::now();
                // the wall-clock bound only ends cases that neither answer nor consume CPU
                let wall = watchdog.max(Duration::from_secs(limit * 6));
                loop {
                    match self.rx.as_ref().unwrap().recv_timeout(Duration::from_secs(1)) {
                        Err(RecvTimeoutError::Timeout) => {
                            let (cpu, rss_mb) = proc_cpu_rss(pid);
                            let used = cpu.saturating_sub(cpu0) / 100;
                            if used >= limit || rss_mb >= self.hang_rss_mb {
                                self.kill();
                                return Obs::Hung { cpu_s: used, rss_mb };
                            }
                            if t0.elapsed() >= wall {
                                break Err(RecvTimeoutError::Timeout);
                            }
                        }
                        other => break other,
                    }
                }
            }
        };
        match r {
            Ok(line) => match serde_json::from_str::<Value>(&line) {
                Ok(v) => {
                    if let Some(p) = v.get("__panic") {
                        // the worker resets its state after a panic by itself
                        Obs::Panicked {
                            msg: p["msg"].as_str().unwrap_or("").to_string(),
                            loc: p["loc"].as_str().unwrap_or("").to_string(),
                        }
                    } else {
                        if v.get("__recycle").is_some() {
                            // the worker asked to be replaced (e.g. it holds a hung thread)
                            self.kill();
                        }
                        Obs::Ok(v)
                    }
                }
                Err(e) => {
                    self.kill();
                    Obs::Died {
                        status: format!("garbled reply: {}", e),
                        tail: line,
                    }
                }
            },
            Err(RecvTimeoutError::Timeout) => {
                self.kill();
                Obs::TimedOut
            }
            Err(RecvTimeoutError::Disconnected) => self.died(),
        }
    }
    fn died(&mut self) -> Obs {
        let status = match self.child.take() {
            Some(mut c) => match c.wait() {
                Ok(s) => format!("{}", s),
                Err(e) => format!("wait failed: {}", e),
            },
            None => "no child".into(),
        };
        self.rx = None;
        Obs::Died {
            status,
            tail: self.log_tail(),
        }
    }
    /// pid of the live child (for CPU-idle stall detection)
    pub fn pid(&self) -> Option<u32> {
        self.child.as_ref().map(|c| c.id())
    }
}

/// (user + system CPU time in clock ticks of 1/100 s, resident set in MiB) of a process
fn proc_cpu_rss(pid: u32) -> (u64, u64) {
    let s = std::fs::read_to_string(format!("/proc/{}/stat", pid)).unwrap_or_default();
    let rest = s.rsplit(')').next().unwrap_or("");
    let f: Vec<&str> = rest.split_whitespace().collect();
    let ut = f.get(11).and_then(|x| x.parse::<u64>().ok()).unwrap_or(0);
    let st = f.get(12).and_then(|x| x.parse::<u64>().ok()).unwrap_or(0);
    let rss_pages = f.get(21).and_then(|x| x.parse::<u64>().ok()).unwrap_or(0);
    (ut + st, rss_pages * 4096 / (1 << 20))
}

impl Drop for Worker {
    fn drop(&mut self) {
        self.kill();
        let _ = std::fs::remove_file(&self.log_path);
    }
}

// ------------------------------------------------------------------------------------------
// Worker main loop (worker side)

static PANIC_INFO: Mutex<Option<(String, String)>> = Mutex::new(None);

pub fn worker_main(prop: &'static dyn Property, stack: usize) {
    // Move the protocol away from fds 0/1: gluon primitives under test read stdin and print.
    let (inp, out) = unsafe {
        let i = libc::dup(0);
        let o = libc::dup(1);
        let devnull = libc::open(b"/dev/null\0".as_ptr() as *const libc::c_char, libc::O_RDONLY);
        libc::dup2(devnull, 0);
        libc::close(devnull);
        libc::dup2(2, 1);
        use std::os::unix::io::FromRawFd;
        (
            std::fs::File::from_raw_fd(i),
            std::fs::File::from_raw_fd(o),
        )
    };
    std::panic::set_hook(Box::new(|info| {
        let msg = if let Some(s) = info.payload().downcast_ref::<&str>() {
            s.to_string()
        } else if let Some(s) = info.payload().downcast_ref::<String>() {
            s.clone()
        } else {
            "<non-string panic>".to_string()
        };
        let loc = info
            .location()
            .map(|l| format!("{}:{}", l.file(), l.line()))
            .unwrap_or_default();
        eprintln!("[worker] panic: {} at {}", msg, loc);
        let mut g = PANIC_INFO.lock().unwrap_or_else(|e| e.into_inner());
        if g.is_none() {
            *g = Some((msg, loc));
        }
    }));
    let h = std::thread::Builder::new()
        .stack_size(stack)
        .spawn(move || {
            let mut ctx = WorkerCtx {
                state: None,
                cases_done: 0,
            };
            let mut r = BufReader::new(inp);
            let mut out = out;
            loop {
                let mut line = String::new();
                match r.read_line(&mut line) {
                    Ok(0) | Err(_) => break,
                    Ok(_) => {}
                }
                let case: Value = match serde_json::from_str(&line) {
                    Ok(v) => v,
                    Err(e) => {
                        let _ = writeln!(out, "{}", json!({"__harness_error": e.to_string()}));
                        continue;
                    }
                };
                *PANIC_INFO.lock().unwrap_or_else(|e| e.into_inner()) = None;
                let res = std::panic::catch_unwind(std::panic::AssertUnwindSafe(|| {
                    prop.exec(&mut ctx, &case)
                }));
                ctx.cases_done += 1;
                let reply = match res {
                    Ok(v) => v,
                    Err(_) => {
                        // drop (leak) property state: it may be inconsistent after a panic
                        if let Some(s) = ctx.state.take() {
                            std::mem::forget(s);
                        }
                        let (msg, loc) = PANIC_INFO
                            .lock()
                            .unwrap_or_else(|e| e.into_inner())
                            .take()
                            .unwrap_or_default();
                        json!({"__panic": {"msg": msg, "loc": loc}})
                    }
                };
                let s = serde_json::to_string(&reply).unwrap();
                if writeln!(out, "{}", s).is_err() {
                    break;
                }
                let _ = out.flush();
            }
        })
        .expect("worker thread");
    let _ = h.join();
    // do not run destructors of leaked VMs
    std::process::exit(0);
}

/// Takes the panic recorded by the hook since the last reset (for exec implementations that
/// catch panics themselves, e.g. around a single sub-step).
pub fn take_panic_info() -> Option<(String, String)> {
    PANIC_INFO.lock().unwrap_or_else(|e| e.into_inner()).take()
}

// ------------------------------------------------------------------------------------------
// Driver

#[derive(Default)]
struct Stats {
    evaluations: u64,
    cases: u64,
    nontrivial: BTreeSet<u64>,
    classes: BTreeMap<String, u64>,
    samples: Vec<Value>,
    nontrivial_samples: Vec<Value>,
    known: BTreeMap<String, u64>,
    inconclusive: u64,
    inconclusive_notes: Vec<String>,
    violations: Vec<ViolationRec>,
    shrink_runs: u64,
}

#[derive(Clone)]
struct ViolationRec {
    msg: String,
    case: Value,
    obs: Value,
    history: Option<Vec<Value>>,
}

fn merge_judged(st: &mut Stats, j: &Judged) {
    st.evaluations += j.evals;
    st.cases += 1;
    for h in &j.nontrivial {
        st.nontrivial.insert(*h);
    }
    for c in &j.classes {
        *st.classes.entry(c.clone()).or_insert(0) += 1;
    }
}

pub fn seed_from_env() -> u64 {
    std::env::var("VERIF_SEED")
        .ok()
        .and_then(|s| s.trim().parse::<i64>().ok())
        .map(|v| v as u64)
        .unwrap_or(1)
}

fn load_replays(prop: &str) -> Vec<(String, Value)> {
    let dir = format!("{}/replays/{}", VERIF_DIR, prop);
    let mut out = vec![];
    let mut names: Vec<_> = match std::fs::read_dir(&dir) {
        Ok(rd) => rd
            .filter_map(|e| e.ok())
            .map(|e| e.path())
            .filter(|p| p.extension().map(|x| x == "json").unwrap_or(false))
            .collect(),
        Err(_) => vec![],
    };
    names.sort();
    for p in names {
        if let Ok(t) = std::fs::read_to_string(&p) {
            if let Ok(v) = serde_json::from_str::<Value>(&t) {
                out.push((p.to_string_lossy().to_string(), v));
            }
        }
    }
    out
}

pub fn run_property(prop: &'static dyn Property, tier: Tier) -> i32 {
    let t0 = Instant::now();
    let seed = seed_from_env();
    let id = prop.id();
    let kf = Arc::new(KnownFindings::load());
    let mut plan = prop.plan(tier);
    // experimentation knob (not used by registered commands): override the number of generated cases
    if let Some(n) = std::env::var("VERIF_CASES").ok().and_then(|s| s.parse::<usize>().ok()) {
        plan.random_cases = n;
    }
    let shards = plan.shards.max(1);
    let stats = Arc::new(Mutex::new(Stats::default()));
    let watchdog = Duration::from_secs(plan.watchdog_s);

    // ---- replay tier: committed regression inputs and known-finding exemplars
    let replays = load_replays(id);
    let mut known_lines: BTreeSet<String> = BTreeSet::new();
    let mut replay_violation_files: Vec<(String, String)> = vec![];
    {
        let mut w = Worker::new(id, 99, plan.worker_stack).with_plan(&plan);
        for (path, file) in &replays {
            let cases: Vec<Value> = if let Some(h) = file.get("history").and_then(|h| h.as_array())
            {
                h.clone()
            } else {
                vec![file["case"].clone()]
            };
            w.fresh();
            let mut last = None;
            for c in &cases {
                let obs = w.exec(c, watchdog, usize::MAX);
                let j = prop.judge(c, &obs, &kf);
                last = Some((j, obs, c.clone()));
            }
            if let Some((j, _obs, _c)) = last {
                let mut st = stats.lock().unwrap();
                merge_judged(&mut st, &j);
                *st.classes.entry("replay_tier".into()).or_insert(0) += 1;
                match &j.verdict {
                    Verdict::Known(fid) => {
                        *st.known.entry(fid.clone()).or_insert(0) += 1;
                        known_lines.insert(fid.clone());
                    }
                    Verdict::Violation(m) => {
                        replay_violation_files.push((path.clone(), m.clone()));
                    }
                    Verdict::Inconclusive(m) => {
                        st.inconclusive += 1;
                        st.inconclusive_notes.push(m.clone());
                    }
                    Verdict::Pass => {}
                }
            }
        }
    }

    // ---- fixed (enumerated) cases + generated cases, sharded
    let fixed = Arc::new(prop.fixed_cases(tier));
    let n_fixed = fixed.len();
    let mut handles = vec![];
    for shard in 0..shards {
        let stats = stats.clone();
        let kf = kf.clone();
        let fixed = fixed.clone();
        let cases_here = plan.random_cases / shards
            + if shard < plan.random_cases % shards { 1 } else { 0 };
        let tape_len = plan.tape_len;
        let recycle = plan.worker_recycle;
        let stack = plan.worker_stack;
        let (hang_cpu_s, hang_rss_mb) = (plan.hang_cpu_s, plan.hang_rss_mb);
        let max_shrink = plan.max_shrink_iters;
        let h = std::thread::Builder::new()
            .name(format!("shard{}", shard))
            .stack_size(64 << 20)
            .spawn(move || {
                let mut local = Stats::default();
                let mut w0 = Worker::new(id, shard, stack);
                w0.hang_cpu_s = hang_cpu_s;
                w0.hang_rss_mb = hang_rss_mb;
                let worker = RefCell::new(w0);
                let history: RefCell<Vec<Value>> = RefCell::new(vec![]);
                // one step: run a case, judge, record; returns Err(msg) on violation
                let failed = RefCell::new(false);
                let local_cell = RefCell::new(&mut local);
                let step = |case: &Value, count: bool| -> Result<(), String> {
                    let mut w = worker.borrow_mut();
                    if w.child.is_none() || w.sent_since_spawn >= recycle {
                        history.borrow_mut().clear();
                    }
                    let obs = w.exec(case, watchdog, recycle);
                    history.borrow_mut().push(case.clone());
                    if !matches!(obs, Obs::Ok(_)) {
                        // worker state is gone (or was reset) after death/panic/timeout
                    }
                    let j = prop.judge(case, &obs, &kf);
                    let mut st = local_cell.borrow_mut();
                    if count {
                        merge_judged(&mut st, &j);
                        if st.samples.len() < 3 {
                            st.samples.push(prop.describe(case, &obs));
                        } else if !j.nontrivial.is_empty() && st.nontrivial_samples.len() < 3 {
                            st.nontrivial_samples.push(prop.describe(case, &obs));
                        }
                    } else {
                        st.shrink_runs += 1;
                    }
                    match j.verdict {
                        Verdict::Pass => Ok(()),
                        Verdict::Known(fid) => {
                            if count {
                                *st.known.entry(fid).or_insert(0) += 1;
                            }
                            Ok(())
                        }
                        Verdict::Inconclusive(m) => {
                            if count {
                                st.inconclusive += 1;
                                if st.inconclusive_notes.len() < 5 || std::env::var("C10_SURVEY").is_ok() {
                                    st.inconclusive_notes.push(m);
                                }
                            }
                            Ok(())
                        }
                        Verdict::Violation(m) => Err(m),
                    }
                };
                // (a) fixed cases assigned to this shard
                let mut fixed_fail: Option<(String, Value)> = None;
                let mut i = shard;
                while i < fixed.len() {
                    let c = &fixed[i];
                    if let Err(m) = step(c, true) {
                        fixed_fail = Some((m, c.clone()));
                        break;
                    }
                    i += shards;
                }
                if let Some((m, c)) = fixed_fail {
                    let rec = confirm(prop, &kf, &worker, &history, &c, m, watchdog);
                    local_cell.borrow_mut().violations.push(rec);
                }
                // (b) generated cases
                if cases_here > 0 && local_cell.borrow().violations.is_empty() {
                    let shard_seed = splitmix(seed ^ fnv(id.as_bytes()) ^ ((shard as u64) << 32));
                    let config = Config {
                        cases: cases_here as u32,
                        failure_persistence: None,
                        rng_seed: RngSeed::Fixed(shard_seed),
                        max_shrink_iters: max_shrink,
                        verbose: 0,
                        ..Config::default()
                    };
                    let mut runner = TestRunner::new(config);
                    let strat = proptest::collection::vec(0u32..65536, 0..=tape_len);
                    let res = runner.run(&strat, |tape| {
                        let mut t = Tape::new(&tape);
                        let case = prop.gen(&mut t, tier);
                        let counting = !*failed.borrow();
                        match step(&case, counting) {
                            Ok(()) => Ok(()),
                            Err(m) => {
                                *failed.borrow_mut() = true;
                                Err(TestCaseError::fail(m))
                            }
                        }
                    });
                    match res {
                        Ok(()) => {}
                        Err(TestError::Fail(reason, tape)) => {
                            let mut t = Tape::new(&tape);
                            let case = prop.gen(&mut t, tier);
                            let rec = confirm(
                                prop,
                                &kf,
                                &worker,
                                &history,
                                &case,
                                reason.message().to_string(),
                                watchdog,
                            );
                            local_cell.borrow_mut().violations.push(rec);
                        }
                        Err(TestError::Abort(r)) => {
                            let mut st = local_cell.borrow_mut();
                            st.inconclusive += 1;
                            st.inconclusive_notes
                                .push(format!("proptest aborted: {}", r.message()));
                        }
                    }
                }
                drop(local_cell);
                let mut g = stats.lock().unwrap();
                g.evaluations += local.evaluations;
                g.cases += local.cases;
                g.shrink_runs += local.shrink_runs;
                g.nontrivial.extend(local.nontrivial.iter().copied());
                for (k, v) in local.classes {
                    *g.classes.entry(k).or_insert(0) += v;
                }
                for (k, v) in local.known {
                    *g.known.entry(k).or_insert(0) += v;
                }
                g.inconclusive += local.inconclusive;
                g.inconclusive_notes.extend(local.inconclusive_notes);
                g.samples.extend(local.samples);
                g.nontrivial_samples.extend(local.nontrivial_samples);
                g.violations.extend(local.violations);
            })
            .unwrap();
        handles.push(h);
    }
    let mut lost_shards = 0;
    for h in handles {
        if h.join().is_err() {
            lost_shards += 1;
        }
    }

    // ---- report
    let st = stats.lock().unwrap();
    let mut exit = 0;
    // KNOWN-FINDING lines: one per listed finding of this property that was observed (replay
    // tier or generated)
    for f in &kf.findings {
        if f.property == id && f.status == "known" {
            let seen = st.known.get(&f.id).copied().unwrap_or(0);
            if seen > 0 {
                println!(
                    "KNOWN-FINDING: property={} {} [{}; observed {}x this run]",
                    id, f.what, f.id, seen
                );
            } else {
                println!(
                    "NOTE: listed finding {} of {} was not observed in this run",
                    f.id, id
                );
            }
        }
    }
    let _ = known_lines;
    let mut nviol = 0;
    for (path, m) in &replay_violation_files {
        println!("VIOLATION property={} replay={}", id, path);
        println!("  what: {}", m.lines().next().unwrap_or(""));
        nviol += 1;
        exit = 1;
    }
    let mut seen_msgs = BTreeSet::new();
    for v in &st.violations {
        let key = fnv(serde_json::to_string(&v.case).unwrap().as_bytes());
        if !seen_msgs.insert(key) {
            continue;
        }
        let dir = format!("{}/replays/{}", VERIF_DIR, id);
        let _ = std::fs::create_dir_all(&dir);
        let path = format!("{}/viol-{:016x}.json", dir, key);
        let mut file = json!({
            "property": id,
            "what": v.msg,
            "case": v.case,
            "obs": v.obs,
            "seed": seed,
            "tier": tier.name(),
        });
        if let Some(h) = &v.history {
            file["history"] = Value::Array(h.clone());
        }
        let _ = std::fs::write(&path, serde_json::to_string_pretty(&file).unwrap());
        println!("VIOLATION property={} replay={}", id, path);
        for l in v.msg.lines().take(12) {
            println!("  {}", l);
        }
        nviol += 1;
        exit = 1;
    }
    let frac_inconclusive = if st.cases > 0 {
        st.inconclusive as f64 / st.cases as f64
    } else {
        0.0
    };
    if exit == 0 && lost_shards > 0 {
        // a shard thread of the driver itself panicked (e.g. the worker binary could not be
        // started): its cases were not run, so the run decides nothing
        println!("INCONCLUSIVE property={} {} driver shard(s) lost", id, lost_shards);
        exit = 2;
    }
    if exit == 0 && (st.cases == 0 || frac_inconclusive > 0.05) {
        println!(
            "INCONCLUSIVE property={} cases={} inconclusive={} notes={:?}",
            id, st.cases, st.inconclusive, st.inconclusive_notes
        );
        exit = 2;
    }
    let mut samples: Vec<Value> = vec![];
    samples.extend(st.nontrivial_samples.iter().take(6).cloned());
    samples.extend(st.samples.iter().take(4).cloned());
    let ev = json!({
        "property_id": id,
        "tier": tier.name(),
        "seed": seed as i64,
        "level": "exploration",
        "coverage": {
            "evaluations": st.evaluations,
            "cases": st.cases,
            "distinct_nontrivial": st.nontrivial.len(),
            "rule": prop.rule(),
            "samples": samples,
            "classes": st.classes,
            "fixed_cases": n_fixed,
            "exhaustive": prop.exhaustive_note(tier).is_some(),
            "exhaustive_note": prop.exhaustive_note(tier),
            "replay_files": replays.len(),
            "excluded_by_known_finding": st.known,
            "generator_avoids": kf.avoided(id),
            "inconclusive": st.inconclusive,
            "inconclusive_notes": st.inconclusive_notes.iter().take(5).collect::<Vec<_>>(),
            "shrink_reruns_not_counted": st.shrink_runs,
            "shards": shards,
        },
        "assumptions": prop.assumptions(),
        "wall_s": t0.elapsed().as_secs_f64(),
        "violations": nviol,
    });
    let _ = std::fs::create_dir_all(format!("{}/evidence", VERIF_DIR));
    std::fs::write(
        format!("{}/evidence/{}.json", VERIF_DIR, id),
        serde_json::to_string_pretty(&ev).unwrap(),
    )
    .expect("write evidence");
    println!(
        "{} {}: cases={} evaluations={} distinct_nontrivial={} known={} inconclusive={} violations={} wall={:.1}s",
        id,
        tier.name(),
        st.cases,
        st.evaluations,
        st.nontrivial.len(),
        st.known.values().sum::<u64>(),
        st.inconclusive,
        nviol,
        t0.elapsed().as_secs_f64()
    );
    exit
}

/// Re-runs a failing case on a fresh worker.  If it fails there too the replay is the single
/// case; otherwise the failure depends on what the worker ran before and the replay carries the
/// worker's history since its spawn.
fn confirm(
    prop: &'static dyn Property,
    kf: &KnownFindings,
    worker: &RefCell<Worker>,
    history: &RefCell<Vec<Value>>,
    case: &Value,
    msg: String,
    watchdog: Duration,
) -> ViolationRec {
    let hist: Vec<Value> = history.borrow().clone();
    let mut w = worker.borrow_mut();
    w.fresh();
    history.borrow_mut().clear();
    let obs = w.exec(case, watchdog, usize::MAX);
    let j = prop.judge(case, &obs, kf);
    w.kill();
    match j.verdict {
        Verdict::Violation(m2) => ViolationRec {
            msg: m2,
            case: case.clone(),
            obs: obs.to_json(),
            history: None,
        },
        _ => {
            // history dependent: keep the prefix up to and including the last occurrence of case
            let mut h = hist;
            if let Some(pos) = h.iter().rposition(|c| c == case) {
                h.truncate(pos + 1);
            } else {
                h.push(case.clone());
            }
            ViolationRec {
                msg: format!("(only after the worker's earlier cases) {}", msg),
                case: case.clone(),
                obs: obs.to_json(),
                history: Some(h),
            }
        }
    }
}

pub fn replay_file(prop: &'static dyn Property, path: &str) -> i32 {
    let kf = KnownFindings::load();
    let plan = prop.plan(Tier::Quick);
    let txt = std::fs::read_to_string(path).expect("read replay file");
    let file: Value = serde_json::from_str(&txt).expect("replay json");
    let cases: Vec<Value> = if let Some(h) = file.get("history").and_then(|h| h.as_array()) {
        h.clone()
    } else {
        vec![file["case"].clone()]
    };
    let mut w = Worker::new(prop.id(), 98, plan.worker_stack).with_plan(&plan);
    w.fresh();
    let mut exit = 0;
    let n = cases.len();
    for (i, c) in cases.iter().enumerate() {
        let obs = w.exec(c, Duration::from_secs(plan.watchdog_s), usize::MAX);
        let j = prop.judge(c, &obs, &kf);
        if i + 1 == n {
            println!(
                "{}",
                serde_json::to_string_pretty(&prop.describe(c, &obs)).unwrap()
            );
            match j.verdict {
                Verdict::Pass => println!("verdict: pass"),
                Verdict::Known(f) => println!("verdict: known finding {}", f),
                Verdict::Inconclusive(m) => {
                    println!("verdict: inconclusive: {}", m);
                    exit = 2
                }
                Verdict::Violation(m) => {
                    println!("VIOLATION property={} replay={}", prop.id(), path);
                    println!("{}", m);
                    exit = 1;
                }
            }
        }
    }
    exit
}

//! Canonical S-expression renderings of (a) harness terms and (b) gluon's parsed AST, such that
//! equal trees give equal text.  Used by the parser round trip (C08) and the formatter (C10).
//! Also the span invariants of a parsed tree.
use gluon::base::ast::{
    Alternative, Expr, Literal, Pattern, PatternField, SpannedExpr, SpannedPattern, ValueBinding, ValueBindings,
};
use gluon::base::pos::{BytePos, Span};
use gluon::base::symbol::Symbol;

use crate::gen::ast::*;
use crate::gen::print::{op_text, print_ty};

fn q(s: &str) -> String {
    format!("{:?}", s)
}

pub fn canon_lit(l: &Lit) -> String {
    match l {
        Lit::Int(i) => {
            if *i == i64::MIN {
                "(infix - (int -9223372036854775807) (int 1))".into()
            } else {
                format!("(int {})", i)
            }
        }
        Lit::Float(b) => {
            let f = f64::from_bits(*b);
            if f.is_nan() {
                format!("(infix / (float {}) (float {}))", 0f64.to_bits(), 0f64.to_bits())
            } else if f.is_infinite() {
                format!(
                    "(infix / (float {}) (float {}))",
                    (if f > 0.0 { 1f64 } else { -1f64 }).to_bits(),
                    0f64.to_bits()
                )
            } else {
                format!("(float {})", b)
            }
        }
        Lit::Byte(b) => format!("(byte {})", b),
        Lit::Char(c) => format!("(char {})", *c as u32),
        Lit::Str(s) => format!("(str {})", q(s)),
    }
}

fn norm_ty(s: &str) -> String {
    // the empty record type is the unit type and is displayed as `()`
    s.chars().filter(|c| !c.is_whitespace()).collect::<String>().replace("{}", "()")
}

pub fn canon_pat(p: &Pat) -> String {
    match p {
        Pat::Wild => "(pvar _)".into(),
        Pat::Var(v) => format!("(pvar {})", v),
        Pat::Lit(l) => format!("(plit {})", canon_lit(l)),
        Pat::Tuple(ps) => format!("(ptuple{})", ps.iter().map(|p| format!(" {}", canon_pat(p))).collect::<String>()),
        Pat::Record(fs) => format!(
            "(precord{})",
            fs.iter()
                .map(|(n, p)| match p {
                    None => format!(" ({})", n),
                    Some(p) => format!(" ({} {})", n, canon_pat(p)),
                })
                .collect::<String>()
        ),
        Pat::Con(c, ps) => {
            if ps.is_empty() {
                // an upper-case identifier without arguments parses as a constructor pattern
                format!("(pcon {})", c)
            } else {
                format!("(pcon {}{})", c, ps.iter().map(|p| format!(" {}", canon_pat(p))).collect::<String>())
            }
        }
        Pat::As(v, p) => format!("(pas {} {})", v, canon_pat(p)),
    }
}

pub struct TmCanon<'a> {
    pub decls: &'a [Decl],
    pub annotate: bool,
}

impl<'a> TmCanon<'a> {
    fn bind(&self, b: &FunBind) -> String {
        let ann = match (&b.ty, self.annotate) {
            (Some(t), true) => format!(" (ty {})", norm_ty(&print_ty(t, self.decls))),
            _ => String::new(),
        };
        format!("(bind (pvar {}) ({}){} {})", b.name, b.params.join(" "), ann, self.tm(&b.body))
    }
    pub fn tm(&self, t: &Tm) -> String {
        match t {
            Tm::Lit(l) => canon_lit(l),
            Tm::Unit => "(tuple)".into(),
            Tm::Var(v) => format!("(var {})", v),
            Tm::Lam(ps, b) => format!("(lam ({}) {})", ps.join(" "), self.tm(b)),
            Tm::App(f, args) => {
                format!("(app {}{})", self.tm(f), args.iter().map(|a| format!(" {}", self.tm(a))).collect::<String>())
            }
            Tm::Let(b, body) => format!("(let {} {})", self.bind(b), self.tm(body)),
            Tm::LetRec(bs, body) => format!(
                "(letrec{} {})",
                bs.iter().map(|b| format!(" {}", self.bind(b))).collect::<String>(),
                self.tm(body)
            ),
            Tm::LetPat(p, e, body) => {
                let (e, ann) = match &**e {
                    Tm::Ann(inner, t) if self.annotate => {
                        (&**inner, format!(" (ty {})", norm_ty(&print_ty(t, self.decls))))
                    }
                    Tm::Ann(inner, _) => (&**inner, String::new()),
                    other => (other, String::new()),
                };
                format!("(let (bind {} (){} {}) {})", canon_pat(p), ann, self.tm(e), self.tm(body))
            }
            Tm::If(c, a, b) => format!("(if {} {} {})", self.tm(c), self.tm(a), self.tm(b)),
            Tm::Prim(op, num, hash, a, b) => {
                format!("(infix {} {} {})", op_text(*op, *num, *hash), self.tm(a), self.tm(b))
            }
            Tm::And(a, b) => format!("(infix && {} {})", self.tm(a), self.tm(b)),
            Tm::Or(a, b) => format!("(infix || {} {})", self.tm(a), self.tm(b)),
            Tm::Tuple(xs) => format!("(tuple{})", xs.iter().map(|x| format!(" {}", self.tm(x))).collect::<String>()),
            Tm::Array(xs) => format!("(array{})", xs.iter().map(|x| format!(" {}", self.tm(x))).collect::<String>()),
            Tm::Record(fs) => format!(
                "(record{})",
                fs.iter()
                    .map(|(n, x)| match x {
                        // printed with the field shorthand
                        Tm::Var(v) if v == n => format!(" ({})", n),
                        _ => format!(" ({} {})", n, self.tm(x)),
                    })
                    .collect::<String>()
            ),
            Tm::Update(fs, base) => format!(
                "(record{} .. {})",
                fs.iter().map(|(n, x)| format!(" ({} {})", n, self.tm(x))).collect::<String>(),
                self.tm(base)
            ),
            Tm::Proj(e, f) => format!("(proj {} {})", self.tm(e), f),
            Tm::Con(c, args) => {
                if args.is_empty() {
                    format!("(var {})", c)
                } else {
                    format!("(app (var {}){})", c, args.iter().map(|a| format!(" {}", self.tm(a))).collect::<String>())
                }
            }
            Tm::Match(s, arms) => format!(
                "(match {}{})",
                self.tm(s),
                arms.iter().map(|(p, b)| format!(" (alt {} {})", canon_pat(p), self.tm(b))).collect::<String>()
            ),
            Tm::Error(m) => format!("(app (var error) (str {}))", q(m)),
            Tm::Host(h, a) => {
                let n = match h {
                    Host::Log => "log",
                    Host::Tick => "tick",
                    Host::Fail => "fail",
                };
                format!("(app (proj (var h) {}) {})", n, self.tm(a))
            }
            Tm::HostFn(h) => {
                let n = match h {
                    Host::Log => "log",
                    Host::Tick => "tick",
                    Host::Fail => "fail",
                };
                format!("(proj (var h) {})", n)
            }
            Tm::Ann(e, _) => self.tm(e),
        }
    }
    pub fn program(&self, p: &Program) -> String {
        let mut s = String::new();
        let mut close = 0;
        if p.uses_host {
            s.push_str("(let (bind (pvar h) () (app (var import!) (var h))) ");
            close += 1;
        }
        for d in &p.decls {
            s.push_str(&format!(
                "(type {} {}{} ",
                d.name,
                d.params,
                d.ctors.iter().map(|(c, args)| format!(" ({} {})", c, args.len())).collect::<String>()
            ));
            close += 1;
        }
        s.push_str(&self.tm(&p.body));
        for _ in 0..close {
            s.push(')');
        }
        s
    }
}

// ---- gluon AST -----------------------------------------------------------------------------

fn name(s: &Symbol) -> String {
    s.declared_name().to_string()
}

fn g_lit(l: &Literal) -> String {
    match l {
        Literal::Int(i) => format!("(int {})", i),
        Literal::Float(f) => format!("(float {})", f.into_inner().to_bits()),
        Literal::Byte(b) => format!("(byte {})", b),
        Literal::Char(c) => format!("(char {})", *c as u32),
        Literal::String(s) => format!("(str {})", q(s)),
    }
}

pub fn g_pat(p: &SpannedPattern<Symbol>) -> String {
    match &p.value {
        Pattern::Ident(id) => format!("(pvar {})", name(&id.name)),
        Pattern::Literal(l) => format!("(plit {})", g_lit(l)),
        Pattern::Tuple { elems, .. } => format!("(ptuple{})", elems.iter().map(|p| format!(" {}", g_pat(p))).collect::<String>()),
        Pattern::Record { fields, implicit_import, .. } => format!(
            "(precord{}{})",
            fields
                .iter()
                .map(|f| match f {
                    PatternField::Type { name: n } => format!(" (type {})", name(&n.value)),
                    PatternField::Value { name: n, value: None } => format!(" ({})", name(&n.value)),
                    PatternField::Value { name: n, value: Some(p) } => format!(" ({} {})", name(&n.value), g_pat(p)),
                })
                .collect::<String>(),
            if implicit_import.is_some() { " ?" } else { "" }
        ),
        Pattern::Constructor(id, args) => {
            format!("(pcon {}{})", name(&id.name), args.iter().map(|p| format!(" {}", g_pat(p))).collect::<String>())
        }
        Pattern::As(n, p) => format!("(pas {} {})", name(&n.value), g_pat(p)),
        Pattern::Error => "(perror)".into(),
    }
}

fn g_bind(b: &ValueBinding<Symbol>) -> String {
    let ann = match &b.typ {
        Some(t) => format!(" (ty {})", norm_ty(&t.to_string())),
        None => String::new(),
    };
    format!(
        "(bind {} ({}){} {})",
        g_pat(&b.name),
        b.args.iter().map(|a| name(&a.name.value.name)).collect::<Vec<_>>().join(" "),
        ann,
        g_expr(&b.expr)
    )
}

pub fn g_expr(e: &SpannedExpr<Symbol>) -> String {
    match &e.value {
        Expr::Ident(id) => format!("(var {})", name(&id.name)),
        Expr::Literal(l) => g_lit(l),
        Expr::App { func, args, .. } => {
            format!("(app {}{})", g_expr(func), args.iter().map(|a| format!(" {}", g_expr(a))).collect::<String>())
        }
        Expr::Lambda(l) => format!(
            "(lam ({}) {})",
            l.args.iter().map(|a| name(&a.name.value.name)).collect::<Vec<_>>().join(" "),
            g_expr(l.body)
        ),
        Expr::IfElse(c, a, b) => format!("(if {} {} {})", g_expr(c), g_expr(a), g_expr(b)),
        Expr::Match(s, alts) => format!(
            "(match {}{})",
            g_expr(s),
            alts.iter()
                .map(|Alternative { pattern, expr }| format!(" (alt {} {})", g_pat(pattern), g_expr(expr)))
                .collect::<String>()
        ),
        Expr::Infix { lhs, op, rhs, .. } => format!("(infix {} {} {})", name(&op.value.name), g_expr(lhs), g_expr(rhs)),
        Expr::Projection(e, f, _) => format!("(proj {} {})", g_expr(e), name(f)),
        Expr::Array(a) => format!("(array{})", a.exprs.iter().map(|x| format!(" {}", g_expr(x))).collect::<String>()),
        Expr::Record { types, exprs, base, .. } => format!(
            "(record{}{}{})",
            types.iter().map(|f| format!(" (type {})", name(&f.name.value))).collect::<String>(),
            exprs
                .iter()
                .map(|f| match &f.value {
                    Some(v) => format!(" ({} {})", name(&f.name.value), g_expr(v)),
                    None => format!(" ({})", name(&f.name.value)),
                })
                .collect::<String>(),
            match base {
                Some(b) => format!(" .. {}", g_expr(b)),
                None => String::new(),
            }
        ),
        Expr::Tuple { elems, .. } => {
            // a parenthesised expression is not a node of its own
            if elems.len() == 1 {
                g_expr(&elems[0])
            } else {
                format!("(tuple{})", elems.iter().map(|x| format!(" {}", g_expr(x))).collect::<String>())
            }
        }
        Expr::LetBindings(bs, body) => match bs {
            ValueBindings::Plain(b) => format!("(let {} {})", g_bind(b), g_expr(body)),
            ValueBindings::Recursive(bs) => {
                format!("(letrec{} {})", bs.iter().map(|b| format!(" {}", g_bind(b))).collect::<String>(), g_expr(body))
            }
        },
        Expr::TypeBindings(bs, body) => {
            let mut s = String::new();
            for b in bs.iter() {
                let alias = &b.alias.value;
                let ctors = match &**alias.unresolved_type() {
                    gluon::base::types::Type::Variant(row) => gluon::base::types::row_iter(row)
                        .map(|f| format!(" ({} {})", name(&f.name), gluon::base::types::ctor_args(&f.typ).count()))
                        .collect::<String>(),
                    _ => format!(" (alias {})", norm_ty(&alias.unresolved_type().to_string())),
                };
                s.push_str(&format!("(type {} {}{} ", name(&b.name.value), alias.params().len(), ctors));
            }
            s.push_str(&g_expr(body));
            for _ in bs.iter() {
                s.push(')');
            }
            s
        }
        Expr::Block(es) => {
            if es.len() == 1 {
                g_expr(&es[0])
            } else {
                format!("(block{})", es.iter().map(|x| format!(" {}", g_expr(x))).collect::<String>())
            }
        }
        Expr::Do(d) => format!(
            "(do {} {} {})",
            d.id.as_ref().map(|p| g_pat(p)).unwrap_or_else(|| "_".into()),
            g_expr(d.bound),
            g_expr(d.body)
        ),
        Expr::MacroExpansion { original, .. } => g_expr(original),
        Expr::Annotated(e, t) => format!("(ann {} {})", g_expr(e), norm_ty(&t.to_string())),
        Expr::Error(_) => "(error)".into(),
    }
}

// ---- span invariants -------------------------------------------------------------------------

pub struct SpanCheck<'a> {
    pub src: &'a str,
    pub base: u32,
    pub problems: Vec<String>,
    pub nodes: usize,
}

impl<'a> SpanCheck<'a> {
    pub fn new(src: &'a str, base: u32) -> SpanCheck<'a> {
        SpanCheck { src, base, problems: vec![], nodes: 0 }
    }
    fn range(&self, s: Span<BytePos>) -> Option<(usize, usize)> {
        let a = s.start().to_usize().checked_sub(self.base as usize)?;
        let b = s.end().to_usize().checked_sub(self.base as usize)?;
        Some((a, b))
    }
    fn text(&self, s: Span<BytePos>) -> Option<&'a str> {
        let (a, b) = self.range(s)?;
        self.src.get(a..b)
    }
    fn check_span(&mut self, what: &str, s: Span<BytePos>, parent: Option<Span<BytePos>>) {
        self.nodes += 1;
        match self.range(s) {
            None => self.problems.push(format!("{}: span {:?} starts before the source", what, s)),
            Some((a, b)) => {
                if a > b || b > self.src.len() {
                    self.problems.push(format!("{}: span {}..{} outside the source (len {})", what, a, b, self.src.len()));
                } else if !self.src.is_char_boundary(a) || !self.src.is_char_boundary(b) {
                    self.problems.push(format!("{}: span {}..{} not on character boundaries", what, a, b));
                }
            }
        }
        if let Some(p) = parent {
            if s.start() < p.start() || s.end() > p.end() {
                self.problems.push(format!(
                    "{}: span {:?} not inside its parent's span {:?} (text: {:?})",
                    what,
                    s,
                    p,
                    self.text(s).map(|t| t.chars().take(40).collect::<String>())
                ));
            }
        }
    }
    fn ordered(&mut self, what: &str, spans: &[Span<BytePos>]) {
        for w in spans.windows(2) {
            if w[0].end() > w[1].start() {
                self.problems.push(format!("{}: sibling spans overlap or are out of order: {:?} then {:?}", what, w[0], w[1]));
            }
        }
    }
    fn leaf_text(&mut self, what: &str, s: Span<BytePos>, expected: &str) {
        match self.text(s) {
            Some(t) if t == expected || t == format!("({})", expected) => {}
            other => self.problems.push(format!("{}: the text under span {:?} is {:?}, expected {:?}", what, s, other, expected)),
        }
    }
    pub fn pat(&mut self, p: &SpannedPattern<Symbol>, parent: Option<Span<BytePos>>) {
        self.check_span("pattern", p.span, parent);
        match &p.value {
            Pattern::Ident(id) => self.leaf_text("identifier pattern", p.span, id.name.declared_name()),
            Pattern::Tuple { elems, .. } => {
                let spans: Vec<_> = elems.iter().map(|e| e.span).collect();
                self.ordered("tuple pattern", &spans);
                for e in elems.iter() {
                    self.pat(e, Some(p.span));
                }
            }
            Pattern::Record { fields, .. } => {
                for f in fields.iter() {
                    if let PatternField::Value { name: n, value } = f {
                        self.check_span("record pattern field name", n.span, Some(p.span));
                        self.leaf_text("record pattern field name", n.span, n.value.declared_name());
                        if let Some(v) = value {
                            self.pat(v, Some(p.span));
                        }
                    }
                }
            }
            Pattern::Constructor(_, args) => {
                let spans: Vec<_> = args.iter().map(|e| e.span).collect();
                self.ordered("constructor pattern", &spans);
                for e in args.iter() {
                    self.pat(e, Some(p.span));
                }
            }
            Pattern::As(n, inner) => {
                self.check_span("as-pattern name", n.span, Some(p.span));
                self.pat(inner, Some(p.span));
            }
            Pattern::Literal(_) | Pattern::Error => {}
        }
    }
    fn bind(&mut self, b: &ValueBinding<Symbol>, parent: Span<BytePos>) {
        self.pat(&b.name, Some(parent));
        let mut spans = vec![b.name.span];
        for a in b.args.iter() {
            self.check_span("parameter", a.name.span, Some(parent));
            self.leaf_text("parameter", a.name.span, a.name.value.name.declared_name());
            spans.push(a.name.span);
        }
        spans.push(b.expr.span);
        self.ordered("binding", &spans);
        self.expr(&b.expr, Some(parent));
    }
    pub fn expr(&mut self, e: &SpannedExpr<Symbol>, parent: Option<Span<BytePos>>) {
        self.check_span("expression", e.span, parent);
        let me = Some(e.span);
        match &e.value {
            Expr::Ident(id) => self.leaf_text("identifier", e.span, id.name.declared_name()),
            Expr::Literal(Literal::Int(i)) => {
                if let Some(t) = self.text(e.span) {
                    let t2 = t.trim_start_matches('(').trim_end_matches(')');
                    if t2.parse::<i64>().ok() != Some(*i) {
                        self.problems.push(format!("int literal {}: the text under its span is {:?}", i, t));
                    }
                }
            }
            Expr::Literal(_) => {}
            Expr::App { func, args, .. } => {
                let mut spans = vec![func.span];
                spans.extend(args.iter().map(|a| a.span));
                self.ordered("application", &spans);
                self.expr(func, me);
                for a in args.iter() {
                    self.expr(a, me);
                }
            }
            Expr::Lambda(l) => {
                for a in l.args.iter() {
                    self.check_span("lambda parameter", a.name.span, me);
                    self.leaf_text("lambda parameter", a.name.span, a.name.value.name.declared_name());
                }
                self.expr(l.body, me);
            }
            Expr::IfElse(c, a, b) => {
                self.ordered("if", &[c.span, a.span, b.span]);
                self.expr(c, me);
                self.expr(a, me);
                self.expr(b, me);
            }
            Expr::Match(s, alts) => {
                self.expr(s, me);
                let mut spans = vec![s.span];
                for alt in alts.iter() {
                    spans.push(alt.pattern.span);
                    spans.push(alt.expr.span);
                    self.pat(&alt.pattern, me);
                    self.expr(&alt.expr, me);
                }
                self.ordered("match", &spans);
            }
            Expr::Infix { lhs, op, rhs, .. } => {
                self.ordered("infix", &[lhs.span, op.span, rhs.span]);
                self.check_span("operator", op.span, me);
                self.leaf_text("operator", op.span, op.value.name.declared_name());
                self.expr(lhs, me);
                self.expr(rhs, me);
            }
            Expr::Projection(inner, _, _) => self.expr(inner, me),
            Expr::Array(a) => {
                let spans: Vec<_> = a.exprs.iter().map(|x| x.span).collect();
                self.ordered("array", &spans);
                for x in a.exprs.iter() {
                    self.expr(x, me);
                }
            }
            Expr::Record { exprs, base, .. } => {
                let mut spans = vec![];
                for f in exprs.iter() {
                    self.check_span("field name", f.name.span, me);
                    self.leaf_text("field name", f.name.span, f.name.value.declared_name());
                    spans.push(f.name.span);
                    if let Some(v) = &f.value {
                        spans.push(v.span);
                        self.expr(v, me);
                    }
                }
                if let Some(b) = base {
                    spans.push(b.span);
                    self.expr(b, me);
                }
                self.ordered("record", &spans);
            }
            Expr::Tuple { elems, .. } => {
                let spans: Vec<_> = elems.iter().map(|x| x.span).collect();
                self.ordered("tuple", &spans);
                for x in elems.iter() {
                    self.expr(x, me);
                }
            }
            Expr::LetBindings(bs, body) => {
                match bs {
                    ValueBindings::Plain(b) => {
                        self.bind(b, e.span);
                        self.ordered("let", &[b.expr.span, body.span]);
                    }
                    ValueBindings::Recursive(bs) => {
                        let mut spans = vec![];
                        for b in bs.iter() {
                            self.bind(b, e.span);
                            spans.push(b.expr.span);
                        }
                        spans.push(body.span);
                        self.ordered("rec let", &spans);
                    }
                }
                self.expr(body, me);
            }
            Expr::TypeBindings(_, body) => self.expr(body, me),
            Expr::Block(es) => {
                let spans: Vec<_> = es.iter().map(|x| x.span).collect();
                self.ordered("block", &spans);
                for x in es.iter() {
                    self.expr(x, me);
                }
            }
            Expr::Do(d) => {
                self.expr(d.bound, me);
                self.expr(d.body, me);
            }
            Expr::MacroExpansion { original, .. } => self.expr(original, me),
            Expr::Annotated(inner, _) => self.expr(inner, me),
            Expr::Error(_) => {}
        }
    }
}

//! Text-level generators: a permissive tokenizer for gluon-like text, token-level mutators,
//! token soup, random UTF-8, and the repository corpus.
use std::sync::OnceLock;

use crate::tape::Tape;

pub fn tokenize(src: &str) -> Vec<String> {
    let cs: Vec<char> = src.chars().collect();
    let mut out = vec![];
    let mut i = 0;
    let is_op = |c: char| "!#$%&*+-./<=>?@\\^|~:".contains(c);
    while i < cs.len() {
        let c = cs[i];
        let start = i;
        if c == '\n' {
            i += 1;
        } else if c == ' ' || c == '\t' || c == '\r' {
            while i < cs.len() && (cs[i] == ' ' || cs[i] == '\t' || cs[i] == '\r') {
                i += 1;
            }
        } else if c.is_alphabetic() || c == '_' {
            while i < cs.len() && (cs[i].is_alphanumeric() || cs[i] == '_' || cs[i] == '\'') {
                i += 1;
            }
            if i < cs.len() && cs[i] == '!' {
                i += 1;
            }
        } else if c.is_ascii_digit() {
            while i < cs.len() && (cs[i].is_alphanumeric() || cs[i] == '.' || cs[i] == '_') {
                i += 1;
            }
        } else if c == '"' {
            i += 1;
            while i < cs.len() && cs[i] != '"' {
                if cs[i] == '\\' {
                    i += 1;
                }
                i += 1;
            }
            i = (i + 1).min(cs.len());
        } else if c == '\'' {
            i += 1;
            let mut n = 0;
            while i < cs.len() && cs[i] != '\'' && n < 3 {
                if cs[i] == '\\' {
                    i += 1;
                }
                i += 1;
                n += 1;
            }
            i = (i + 1).min(cs.len());
        } else if c == '/' && i + 1 < cs.len() && cs[i + 1] == '/' {
            while i < cs.len() && cs[i] != '\n' {
                i += 1;
            }
        } else if c == '/' && i + 1 < cs.len() && cs[i + 1] == '*' {
            i += 2;
            while i + 1 < cs.len() && !(cs[i] == '*' && cs[i + 1] == '/') {
                i += 1;
            }
            i = (i + 2).min(cs.len());
        } else if is_op(c) {
            while i < cs.len() && is_op(cs[i]) {
                i += 1;
            }
        } else {
            i += 1;
        }
        out.push(cs[start..i.min(cs.len())].iter().collect());
    }
    out
}

pub const VOCAB: &[&str] = &[
    "let", "in", "rec", "type", "match", "with", "if", "then", "else", "do", "seq", "forall", "and",
    "=", "->", "<-", "|", ":", ".", "..", ",", "\\", "@", "?", ";", "(", ")", "{", "}", "[", "]",
    "[|", "|]", "#[infix(left, 4)]", "#[infix(right, 9)]", "#[derive(Eq, Show)]", "#[implicit]",
    "#[doc(hidden)]", "#!shebang", "/// doc\n", "/* c */", "/** d */", "// line\n",
    "//@NO-IMPLICIT-PRELUDE\n", "1", "0", "42", "1.5", "2b", "300b", "'a'", "'\\n'", "'é'", "''",
    "\"s\"", "\"\"", "\"a\\tb\"", "\"\\q\"", "r\"raw\"", "r#\"ra\"w\"#", "r###\"x\"", "0x1F", "0xZ",
    "99999999999999999999", "1.", "1e5", "-1", "x", "y", "f", "g", "Some", "None", "True", "False",
    "import!", "std.prelude", "std.types", "lift_io!", "(+)", "+", "-", "*", "/", "==", "<", "&&",
    "||", "#Int+", "#Float*", "<|", "|>", ">>=", "_", "é", "日本", "'", "\"", "a.b.c", "A.B", "x'",
    "?x", "Int", "String", "Array", "->", "=>", "::", "\n", "\n    ", "\n        ", " ", "  ", "\t",
    "\r\n", "/*", "*/", "#[", "]", "!", "$", "~",
];

pub fn soup(t: &mut Tape, max_tokens: usize) -> String {
    let n = 1 + t.pick(max_tokens);
    let mut s = String::new();
    for _ in 0..n {
        s.push_str(VOCAB[t.pick(VOCAB.len())]);
        match t.pick(6) {
            0 => s.push('\n'),
            1 => {
                s.push('\n');
                for _ in 0..t.pick(12) {
                    s.push(' ');
                }
            }
            2 => {}
            _ => s.push(' '),
        }
    }
    s
}

pub fn random_utf8(t: &mut Tape, max_len: usize) -> String {
    let n = t.pick(max_len + 1);
    let mut bytes = Vec::with_capacity(n);
    for _ in 0..n {
        bytes.push(t.pick(256) as u8);
    }
    String::from_utf8_lossy(&bytes)
        .chars()
        .filter(|c| *c != '\u{FFFD}')
        .collect()
}

pub fn random_chars(t: &mut Tape, max_len: usize) -> String {
    let n = t.pick(max_len + 1);
    let mut s = String::new();
    for _ in 0..n {
        let c = match t.pick(5) {
            0 | 1 => (b' ' + t.pick(95) as u8) as char,
            2 => '\n',
            3 => char::from_u32(0x80 + t.pick(0x800) as u32).unwrap_or('x'),
            _ => char::from_u32(t.pick(0x110000) as u32).unwrap_or('y'),
        };
        s.push(c);
    }
    s
}

pub struct Corpus {
    pub files: Vec<(String, String)>,
}

pub fn corpus() -> &'static Corpus {
    static C: OnceLock<Corpus> = OnceLock::new();
    C.get_or_init(|| {
        let mut files = vec![];
        for dir in [
            "/repo/std",
            "/repo/std/json",
            "/repo/std/effect",
            "/repo/tests/pass",
            "/repo/tests/fail",
            "/repo/examples",
        ] {
            let mut names: Vec<_> = match std::fs::read_dir(dir) {
                Ok(rd) => rd.filter_map(|e| e.ok()).map(|e| e.path()).collect(),
                Err(_) => vec![],
            };
            names.sort();
            for p in names {
                if p.extension().map(|e| e == "glu").unwrap_or(false) {
                    if let Ok(s) = std::fs::read_to_string(&p) {
                        files.push((p.to_string_lossy().to_string(), s));
                    }
                }
            }
        }
        Corpus { files }
    })
}

/// a window of whole lines of a corpus file, at most `max` bytes
pub fn corpus_window(t: &mut Tape, max: usize) -> String {
    let c = corpus();
    if c.files.is_empty() {
        return "let x = 1\nx".into();
    }
    let (_, src) = &c.files[t.pick(c.files.len())];
    if src.len() <= max {
        return src.clone();
    }
    let lines: Vec<&str> = src.split_inclusive('\n').collect();
    let start = if t.chance(1, 2) { 0 } else { t.pick(lines.len()) };
    let mut out = String::new();
    for l in &lines[start..] {
        if out.len() + l.len() > max {
            break;
        }
        out.push_str(l);
    }
    out
}

pub fn clamp_bytes(s: &str, max: usize) -> String {
    if s.len() <= max {
        return s.to_string();
    }
    let mut e = max;
    while !s.is_char_boundary(e) {
        e -= 1;
    }
    s[..e].to_string()
}

/// Applies 1..=k token-level mutations
pub fn mutate(t: &mut Tape, src: &str, k: usize, other: &str) -> (String, Vec<&'static str>) {
    let mut toks = tokenize(src);
    let mut kinds = vec![];
    let n_mut = 1 + t.pick(k);
    for _ in 0..n_mut {
        if toks.is_empty() {
            toks.push("x".into());
        }
        let n = toks.len();
        match t.pick(13) {
            0 => {
                let i = t.pick(n);
                toks.remove(i);
                kinds.push("delete");
            }
            1 => {
                let i = t.pick(n);
                let x = toks[i].clone();
                toks.insert(i, x);
                kinds.push("duplicate");
            }
            2 => {
                let i = t.pick(n);
                let j = t.pick(n);
                toks.swap(i, j);
                kinds.push("swap");
            }
            3 => {
                let i = t.pick(n);
                toks[i] = VOCAB[t.pick(VOCAB.len())].to_string();
                kinds.push("replace_vocab");
            }
            4 => {
                let i = t.pick(n + 1);
                toks.insert(i, VOCAB[t.pick(VOCAB.len())].to_string());
                kinds.push("insert_vocab");
            }
            5 => {
                // truncate at a byte (char boundary)
                let s: String = toks.concat();
                let cut = t.pick(s.len() + 1);
                let s = clamp_bytes(&s, cut);
                toks = tokenize(&s);
                kinds.push("truncate");
            }
            6 => {
                // re-indent one line
                let nl: Vec<usize> = toks
                    .iter()
                    .enumerate()
                    .filter(|(_, x)| x.as_str() == "\n")
                    .map(|(i, _)| i)
                    .collect();
                if !nl.is_empty() {
                    let i = nl[t.pick(nl.len())];
                    let ind = " ".repeat(t.pick(13));
                    if i + 1 < toks.len() && toks[i + 1].trim().is_empty() && toks[i + 1] != "\n" {
                        toks[i + 1] = ind;
                    } else {
                        toks.insert(i + 1, ind);
                    }
                }
                kinds.push("reindent");
            }
            7 => {
                // splice with another program
                let o = tokenize(other);
                if !o.is_empty() {
                    let i = t.pick(n);
                    let j = t.pick(o.len());
                    let len = 1 + t.pick(20.min(o.len() - j));
                    let piece: Vec<String> = o[j..j + len].to_vec();
                    toks.splice(i..i, piece);
                }
                kinds.push("splice");
            }
            8 => {
                // wrap a token range in brackets, moderate depth
                let depth = 1 + t.pick(64);
                let (l, r) = *t.choose(&[("(", ")"), ("[", "]"), ("{ x = ", " }"), ("(\\z -> ", ")")]);
                let i = t.pick(n);
                let j = i + t.pick(n - i);
                toks.insert(j + 1, r.repeat(depth));
                toks.insert(i, l.repeat(depth));
                kinds.push("wrap");
            }
            9 => {
                // replace an identifier with another identifier of the text (type-level mutant)
                let ids: Vec<usize> = toks
                    .iter()
                    .enumerate()
                    .filter(|(_, x)| x.chars().next().map(|c| c.is_alphabetic()).unwrap_or(false))
                    .map(|(i, _)| i)
                    .collect();
                if ids.len() >= 2 {
                    let a = ids[t.pick(ids.len())];
                    let b = ids[t.pick(ids.len())];
                    toks[a] = toks[b].clone();
                }
                kinds.push("rename_ident");
            }
            10 => {
                // replace a literal by a literal of another type
                let lits: Vec<usize> = toks
                    .iter()
                    .enumerate()
                    .filter(|(_, x)| {
                        x.chars()
                            .next()
                            .map(|c| c.is_ascii_digit() || c == '"' || c == '\'')
                            .unwrap_or(false)
                    })
                    .map(|(i, _)| i)
                    .collect();
                if !lits.is_empty() {
                    let a = lits[t.pick(lits.len())];
                    toks[a] = t
                        .choose(&["1", "1.5", "\"s\"", "'c'", "2b", "()", "[]", "{ }", "None", "(\\x -> x)"])
                        .to_string();
                }
                kinds.push("retype_literal");
            }
            11 => {
                // self-application / occurs-check shapes
                let i = t.pick(n);
                let x = toks[i].clone();
                toks[i] = format!("({} {})", x, x);
                kinds.push("self_apply");
            }
            _ => {
                let i = t.pick(n + 1);
                let c = char::from_u32(match t.pick(3) {
                    0 => t.pick(0x80) as u32,
                    1 => 0x80 + t.pick(0x2000) as u32,
                    _ => t.pick(0x110000) as u32,
                })
                .unwrap_or('?');
                toks.insert(i, c.to_string());
                kinds.push("insert_char");
            }
        }
    }
    (toks.concat(), kinds)
}

//! Printing of literals in gluon concrete syntax (only forms the lexer documents: decimal
//! ints/floats, `b` suffix for bytes, escapes \' \" \\ \n \r \t, other characters raw).

pub fn int(i: i64) -> String {
    if i == i64::MIN {
        "(-9223372036854775807 - 1)".to_string()
    } else if i < 0 {
        format!("({})", i)
    } else {
        format!("{}", i)
    }
}

pub fn byte(b: u8) -> String {
    format!("{}b", b)
}

/// finite floats print as decimal literals; non-finite ones as arithmetic on literals
pub fn float(f: f64) -> String {
    if f.is_nan() {
        return "(0.0 / 0.0)".into();
    }
    if f.is_infinite() {
        return if f > 0.0 {
            "(1.0 / 0.0)".into()
        } else {
            "(-1.0 / 0.0)".into()
        };
    }
    let mut s = format!("{}", f.abs());
    if !s.contains('.') {
        s.push_str(".0");
    }
    if f.is_sign_negative() {
        format!("(-{})", s)
    } else {
        s
    }
}

pub fn finite_float_literal_ok(f: f64) -> bool {
    f.is_finite()
}

fn esc(c: char, out: &mut String, in_string: bool) {
    match c {
        '\\' => out.push_str("\\\\"),
        '\n' => out.push_str("\\n"),
        '\r' => out.push_str("\\r"),
        '\t' => out.push_str("\\t"),
        '"' if in_string => out.push_str("\\\""),
        '\'' if !in_string => out.push_str("\\'"),
        c => out.push(c),
    }
}

pub fn string(s: &str) -> String {
    let mut out = String::from("\"");
    for c in s.chars() {
        esc(c, &mut out, true);
    }
    out.push('"');
    out
}

pub fn chr(c: char) -> String {
    let mut out = String::from("'");
    esc(c, &mut out, false);
    out.push('\'');
    out
}

#[macro_use]
extern crate gluon_vm;
#[allow(unused_imports)]
#[macro_use]
extern crate gluon_codegen;

pub mod engine;
pub mod gl;
pub mod tape;
pub mod lit;
pub mod gen;
pub mod textmut;
pub mod canon;
pub mod props;

use engine::Tier;

fn usage() -> ! {
    eprintln!("usage: gverif run <Cxx> quick|thorough | worker <Cxx> <stack> | replay <Cxx> <file> | probe <file> [bits]");
    std::process::exit(2)
}

struct StderrLog;
impl log::Log for StderrLog {
    fn enabled(&self, m: &log::Metadata) -> bool {
        std::env::var("GVERIF_LOG").map(|f| m.target().contains(&f)).unwrap_or(false)
    }
    fn log(&self, r: &log::Record) {
        if self.enabled(r.metadata()) {
            eprintln!("[{} {}] {}", r.level(), r.target(), r.args());
        }
    }
    fn flush(&self) {}
}
static LOGGER: StderrLog = StderrLog;

fn main() {
    if std::env::var("GVERIF_LOG").is_ok() {
        let _ = log::set_logger(&LOGGER);
        log::set_max_level(log::LevelFilter::Trace);
    }
    let args: Vec<String> = std::env::args().collect();
    if args.len() < 2 {
        usage();
    }
    match args[1].as_str() {
        "run" => {
            let p = props::lookup(&args[2]).unwrap_or_else(|| usage());
            let tier = match args.get(3).map(|s| s.as_str()) {
                Some("thorough") => Tier::Thorough,
                _ => Tier::Quick,
            };
            std::process::exit(engine::run_property(p, tier));
        }
        "worker" => {
            let p = props::lookup(&args[2]).unwrap_or_else(|| usage());
            let stack: usize = args[3].parse().unwrap();
            engine::worker_main(p, stack);
        }
        "replay" => {
            let p = props::lookup(&args[2]).unwrap_or_else(|| usage());
            std::process::exit(engine::replay_file(p, &args[3]));
        }
        "probe" => {
            let src = std::fs::read_to_string(&args[2]).unwrap();
            let bits: u32 = args.get(3).map(|s| s.parse().unwrap()).unwrap_or(0);
            let vm = gl::new_vm(gl::Settings::from_bits(bits));
            println!("shape before {:?}", gl::stack_shape(&vm));
            let out = gl::run(&vm, "probe", &src);
            println!("{:?}", out);
            println!("shape after {:?}", gl::stack_shape(&vm));
            let out = gl::run(&vm, "probe", "1 + 2");
            println!("{:?}", out);
            println!("shape after {:?}", gl::stack_shape(&vm));
            println!("host log: {:?}", gl::take_host_log());
        }
        "render" => {
            // render <bits>: source on stdin, canonical rendering on stdout (used by C16)
            use std::io::Read;
            let bits: u32 = args[2].parse().unwrap();
            let mut src = String::new();
            std::io::stdin().read_to_string(&mut src).unwrap();
            let vm = gl::new_vm(gl::Settings::from_bits(bits));
            print!("{}", props::c16::render(&vm, "c16a", &src));
        }
        "probe-case" => {
            // probe-case <Cxx> <json-file-with-case>: run exec in-process and print the observation
            let p = props::lookup(&args[2]).unwrap_or_else(|| usage());
            let v: serde_json::Value = serde_json::from_str(&std::fs::read_to_string(&args[3]).unwrap()).unwrap();
            let case = if v.get("case").is_some() { v["case"].clone() } else { v };
            let mut ctx = engine::WorkerCtx { state: None, cases_done: 0 };
            let out = p.exec(&mut ctx, &case);
            println!("{}", serde_json::to_string_pretty(&out).unwrap());
        }
        "count-small" => {
            let n: usize = args[2].parse().unwrap();
            let t0 = std::time::Instant::now();
            let all = gen::small::all_terms(n);
            println!("{} terms with <= {} nodes in {:?}", all.len(), n, t0.elapsed());
        }
        "probe-lazy" => {
            use gluon::ThreadExt;
            let vm = gl::new_vm(gl::Settings::default());
            vm.load_script("cellmod", "let { lazy, force } = import! std.lazy\n{ cell = lazy (\\u -> [1, 2, 3]) }").unwrap();
            let user = "let { force } = import! std.lazy\nlet m = import! cellmod\nforce m.cell";
            println!("{:?}", gl::run(&vm, "u1", user));
            vm.collect();
            for i in 0..50 { let _ = gl::run(&vm, "churn", &format!("let xs = [{}, 2, 3, 4]\nxs", i)); }
            vm.collect();
            println!("{:?}", gl::run(&vm, "u2", user));
        }
        "probe-leak" => {
            use gluon::vm::thread::ThreadInternal;
            let vm = gl::new_vm(gl::Settings::default());
            let t = vm.new_thread().unwrap();
            t.context().set_max_stack_size(200);
            for i in 0..200 {
                let out = gl::run(&t, "probe", "let a = import! std.array.prim\na.slice [1,2,3] 2 1");
                let out2 = gl::run(&t, "probe", "1 + 2");
                if i % 10 == 0 || !matches!(out2, gl::Outcome::Value{..}) {
                    println!("{} {:?} {:?} shape {:?}", i, out, out2, gl::stack_shape(&t));
                }
                if !matches!(out2, gl::Outcome::Value{..}) { break; }
            }
        }
        _ => usage(),
    }
}

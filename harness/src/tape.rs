//! Choice tape: every structured generator is a decoder of a `Vec<u32>` whose entries are in
//! `0..65536`.  Index selection is monotone (`(choice * n) >> 16`), alternative 0 is the
//! simplest production, and an exhausted tape reads as zeros, so shrinking the tape (shorter,
//! smaller entries) shrinks the decoded object.

pub struct Tape<'a> {
    data: &'a [u32],
    pos: usize,
}

impl<'a> Tape<'a> {
    pub fn new(data: &'a [u32]) -> Tape<'a> {
        Tape { data, pos: 0 }
    }
    pub fn used(&self) -> usize {
        self.pos
    }
    pub fn exhausted(&self) -> bool {
        self.pos >= self.data.len()
    }
    pub fn next(&mut self) -> u32 {
        let v = self.data.get(self.pos).copied().unwrap_or(0) & 0xFFFF;
        self.pos += 1;
        v
    }
    /// index in 0..n (n >= 1), monotone in the tape entry
    pub fn pick(&mut self, n: usize) -> usize {
        if n <= 1 {
            // still consume so that structure is stable
            self.next();
            return 0;
        }
        ((self.next() as u64 * n as u64) >> 16) as usize
    }
    /// true with probability num/den; 0 on the tape is always false
    pub fn chance(&mut self, num: u32, den: u32) -> bool {
        let v = self.next() as u64;
        // high values are "true" so that zero tape = false
        v * den as u64 >= (den as u64 - num as u64) * 65536
    }
    pub fn range(&mut self, lo: i64, hi: i64) -> i64 {
        debug_assert!(lo <= hi);
        lo + self.pick((hi - lo + 1) as usize) as i64
    }
    pub fn choose<'b, T>(&mut self, xs: &'b [T]) -> &'b T {
        &xs[self.pick(xs.len())]
    }
    pub fn u64(&mut self) -> u64 {
        let a = self.next() as u64;
        let b = self.next() as u64;
        let c = self.next() as u64;
        let d = self.next() as u64;
        a | (b << 16) | (c << 32) | (d << 48)
    }
}

pub fn splitmix(mut x: u64) -> u64 {
    x = x.wrapping_add(0x9E3779B97F4A7C15);
    let mut z = x;
    z = (z ^ (z >> 30)).wrapping_mul(0xBF58476D1CE4E5B9);
    z = (z ^ (z >> 27)).wrapping_mul(0x94D049BB133111EB);
    z ^ (z >> 31)
}

pub fn fnv(s: &[u8]) -> u64 {
    let mut h: u64 = 0xcbf29ce484222325;
    for b in s {
        h ^= *b as u64;
        h = h.wrapping_mul(0x100000001b3);
    }
    h
}

/// Deterministic tape from a seed (used for fixed enumerations that need pseudo-random fill and
/// by replay tooling); the search itself always takes tapes from proptest.
pub fn tape_from_seed(seed: u64, len: usize) -> Vec<u32> {
    let mut s = seed;
    (0..len)
        .map(|_| {
            s = splitmix(s);
            (s & 0xFFFF) as u32
        })
        .collect()
}

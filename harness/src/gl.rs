//! Glue to gluon: VM construction under a settings vector, host module `h`, running programs,
//! classifying outcomes, reading values guided by their type.
use std::sync::Mutex;

use gluon::base::resolve::remove_aliases_cow;
use gluon::base::types::{arg_iter, remove_forall, row_iter, ArcType, BuiltinType, NullInterner, Type};
use gluon::import::add_extern_module;
use gluon::vm::api::{Hole, OpaqueValue, RuntimeResult, ValueRef};
use gluon::vm::{self, ExternModule, Variants};
use gluon::{RootedThread, Thread, ThreadExt};
use serde::{Deserialize, Serialize};

#[derive(Clone, Copy, Debug, Serialize, Deserialize, PartialEq, Eq, Hash, PartialOrd, Ord)]
pub struct Settings {
    pub prelude: bool,
    pub optimize: bool,
    pub debug_info: bool,
    pub run_io: bool,
    pub full_metadata: bool,
}

impl Default for Settings {
    fn default() -> Self {
        Settings {
            prelude: true,
            optimize: true,
            debug_info: true,
            run_io: false,
            full_metadata: false,
        }
    }
}

impl Settings {
    pub fn from_bits(b: u32) -> Settings {
        Settings {
            prelude: b & 1 == 0,
            optimize: b & 2 == 0,
            debug_info: b & 4 == 0,
            run_io: b & 8 != 0,
            full_metadata: b & 16 != 0,
        }
    }
}

// ---- host module ------------------------------------------------------------------------

pub static HOST_LOG: Mutex<Vec<(char, i64)>> = Mutex::new(Vec::new());

fn host_log(x: i64) -> i64 {
    HOST_LOG.lock().unwrap().push(('l', x));
    x
}
fn host_tick(x: i64) -> i64 {
    HOST_LOG.lock().unwrap().push(('t', x));
    x
}
fn host_fail(x: i64) -> RuntimeResult<i64, String> {
    HOST_LOG.lock().unwrap().push(('f', x));
    RuntimeResult::Panic(format!("host failure {}", x))
}

pub fn take_host_log() -> Vec<(char, i64)> {
    std::mem::take(&mut *HOST_LOG.lock().unwrap())
}

fn load_host(vm: &Thread) -> vm::Result<ExternModule> {
    ExternModule::new(
        vm,
        record! {
            log => primitive!(1, "h.log", host_log),
            tick => primitive!(1, "h.tick", host_tick),
            fail => primitive!(1, "h.fail", host_fail),
        },
    )
}

pub fn apply_settings(vm: &Thread, s: Settings) {
    let mut db = vm.get_database_mut();
    db.set_implicit_prelude(s.prelude);
    db.set_optimize(s.optimize);
    db.set_emit_debug_info(s.debug_info);
    db.set_full_metadata(s.full_metadata);
    db.set_run_io(s.run_io);
}

pub fn new_vm(s: Settings) -> RootedThread {
    let vm = gluon::new_vm();
    apply_settings(&vm, s);
    add_extern_module(&vm, "h", load_host);
    vm
}

// ---- harness values ----------------------------------------------------------------------

#[derive(Clone, Debug, Serialize, Deserialize, PartialEq, Eq, Hash, PartialOrd, Ord)]
pub enum Val {
    Int(i64),
    Byte(u8),
    /// bit pattern; all NaNs are normalised to one pattern
    Float(u64),
    Char(u32),
    Str(String),
    Tag(String, Vec<Val>),
    Record(Vec<(String, Val)>),
    Array(Vec<Val>),
    Fun,
    /// value whose type gives no shape to check (type variable, userdata, ...)
    Opaque,
}

pub fn norm_float(f: f64) -> u64 {
    if f.is_nan() {
        f64::NAN.to_bits()
    } else {
        f.to_bits()
    }
}

impl Val {
    pub fn unit() -> Val {
        Val::Record(vec![])
    }
    pub fn bool(b: bool) -> Val {
        Val::Tag(if b { "True" } else { "False" }.into(), vec![])
    }
    pub fn show(&self) -> String {
        match self {
            Val::Int(i) => format!("{}", i),
            Val::Byte(b) => format!("{}b", b),
            Val::Float(f) => format!("{:?}f", f64::from_bits(*f)),
            Val::Char(c) => format!("{:?}", char::from_u32(*c).unwrap_or('\u{fffd}')),
            Val::Str(s) => format!("{:?}", s),
            Val::Tag(n, a) => {
                if a.is_empty() {
                    n.clone()
                } else {
                    format!(
                        "({} {})",
                        n,
                        a.iter().map(|x| x.show()).collect::<Vec<_>>().join(" ")
                    )
                }
            }
            Val::Record(fs) => format!(
                "{{{}}}",
                fs.iter()
                    .map(|(n, v)| format!("{}={}", n, v.show()))
                    .collect::<Vec<_>>()
                    .join(", ")
            ),
            Val::Array(xs) => format!(
                "[{}]",
                xs.iter().map(|x| x.show()).collect::<Vec<_>>().join(", ")
            ),
            Val::Fun => "<fun>".into(),
            Val::Opaque => "<opaque>".into(),
        }
    }
}

/// Reads `v` as a value of type `typ`; an `Err` is a shape mismatch between value and type.
pub fn read_value(vm: &Thread, v: Variants, typ: &ArcType) -> Result<Val, String> {
    let env = vm.get_env();
    read_rec(&env, v, typ, 0)
}

fn read_rec(
    env: &dyn gluon::base::types::TypeEnv<Type = ArcType>,
    v: Variants,
    typ: &ArcType,
    depth: usize,
) -> Result<Val, String> {
    if depth > 4000 {
        return Ok(Val::Opaque);
    }
    let typ = remove_forall(typ);
    let typ = remove_aliases_cow(env, &mut NullInterner, typ);
    let typ = remove_forall(&*typ).clone();
    let vr = v.as_ref();
    let describe = |vr: &ValueRef| -> String {
        match vr {
            ValueRef::Byte(_) => "Byte".into(),
            ValueRef::Int(_) => "Int".into(),
            ValueRef::Float(_) => "Float".into(),
            ValueRef::String(_) => "String".into(),
            ValueRef::Data(d) => format!("Data(tag {}, {} fields)", d.tag(), d.len()),
            ValueRef::Array(a) => format!("Array(len {})", a.len()),
            ValueRef::Userdata(_) => "Userdata".into(),
            ValueRef::Thread(_) => "Thread".into(),
            ValueRef::Closure(_) => "Closure".into(),
            ValueRef::Internal => "Function".into(),
        }
    };
    let mismatch = |vr: &ValueRef| -> Result<Val, String> {
        Err(format!(
            "value of shape {} where the type says `{}`",
            describe(vr),
            typ
        ))
    };
    match &*typ {
        Type::Builtin(BuiltinType::Int) => match vr {
            ValueRef::Int(i) => Ok(Val::Int(i)),
            _ => mismatch(&vr),
        },
        Type::Builtin(BuiltinType::Byte) => match vr {
            ValueRef::Byte(i) => Ok(Val::Byte(i)),
            _ => mismatch(&vr),
        },
        Type::Builtin(BuiltinType::Float) => match vr {
            ValueRef::Float(f) => Ok(Val::Float(norm_float(f))),
            _ => mismatch(&vr),
        },
        Type::Builtin(BuiltinType::Char) => match vr {
            ValueRef::Int(i) => {
                if i >= 0 && i <= u32::MAX as i64 && char::from_u32(i as u32).is_some() {
                    Ok(Val::Char(i as u32))
                } else {
                    Err(format!("Char value {} is not a unicode scalar value", i))
                }
            }
            _ => mismatch(&vr),
        },
        Type::Builtin(BuiltinType::String) => match vr {
            ValueRef::String(s) => Ok(Val::Str(s.to_string())),
            _ => mismatch(&vr),
        },
        Type::Function(..) => match vr {
            ValueRef::Closure(_) | ValueRef::Internal => Ok(Val::Fun),
            _ => mismatch(&vr),
        },
        Type::App(f, args) => match (&**f, vr.clone()) {
            (Type::Builtin(BuiltinType::Array), ValueRef::Array(a)) => {
                let mut out = vec![];
                for x in a.iter() {
                    out.push(read_rec(env, x, &args[0], depth + 1)?);
                }
                Ok(Val::Array(out))
            }
            (Type::Builtin(BuiltinType::Array), _) => mismatch(&vr),
            (Type::Builtin(BuiltinType::Function), ValueRef::Closure(_))
            | (Type::Builtin(BuiltinType::Function), ValueRef::Internal) => Ok(Val::Fun),
            _ => Ok(Val::Opaque),
        },
        // unit: nothing can be observed of it (Rust `()` is marshalled as an unboxed zero)
        Type::Record(row) if matches!(&**row, Type::EmptyRow) => Ok(Val::Record(vec![])),
        Type::Record(row) => match vr {
            ValueRef::Data(d) => {
                let fields: Vec<_> = row_iter(row).collect();
                let mut it = row_iter(row);
                while it.next().is_some() {}
                let closed = matches!(&**it.current_type(), Type::EmptyRow);
                if (closed && d.len() != fields.len()) || d.len() < fields.len() {
                    return Err(format!(
                        "record value has {} fields where the type `{}` has {}",
                        d.len(),
                        typ,
                        fields.len()
                    ));
                }
                let mut out = vec![];
                for (i, f) in fields.iter().enumerate() {
                    let fv = d
                        .get_variant(i)
                        .ok_or_else(|| "missing field".to_string())?;
                    out.push((
                        f.name.declared_name().to_string(),
                        read_rec(env, fv, &f.typ, depth + 1)?,
                    ));
                }
                Ok(Val::Record(out))
            }
            _ => mismatch(&vr),
        },
        Type::Variant(row) => match vr {
            ValueRef::Data(d) => {
                let ctors: Vec<_> = row_iter(row).collect();
                let tag = d.tag() as usize;
                let c = match ctors.get(tag) {
                    Some(c) => c,
                    None => {
                        return Err(format!(
                            "variant tag {} out of range for type `{}`",
                            tag, typ
                        ))
                    }
                };
                let args: Vec<_> = arg_iter(&c.typ).collect();
                if args.len() != d.len() {
                    return Err(format!(
                        "constructor {} carries {} values where its type has {} arguments",
                        c.name.declared_name(),
                        d.len(),
                        args.len()
                    ));
                }
                let mut out = vec![];
                for (i, a) in args.iter().enumerate() {
                    out.push(read_rec(env, d.get_variant(i).unwrap(), a, depth + 1)?);
                }
                Ok(Val::Tag(c.name.declared_name().to_string(), out))
            }
            _ => mismatch(&vr),
        },
        _ => Ok(Val::Opaque),
    }
}

// ---- outcomes ------------------------------------------------------------------------------

#[derive(Clone, Debug, Serialize, Deserialize, PartialEq, Eq)]
pub enum Outcome {
    Value { val: Val, ty: String },
    /// value came back but does not have the shape of its reported type
    BadShape { why: String, ty: String },
    Fail { class: String, msg: String },
}

/// class of a gluon error: `error` (explicit error / Panic), `vm_message`, `stack_overflow`,
/// `out_of_memory`, `interrupted`, `typecheck`, `parse`, `macro`, `io`, `other`, `multiple`
pub fn classify(e: &gluon::Error) -> (String, String) {
    use gluon::Error as E;
    match e {
        E::VM(v) => {
            use gluon::vm::Error as V;
            match v {
                V::Panic(m, _) => ("error".into(), m.clone()),
                V::Message(m) => ("vm_message".into(), m.clone()),
                V::StackOverflow(l) => ("stack_overflow".into(), format!("{}", l)),
                V::OutOfMemory { limit, needed } => {
                    ("out_of_memory".into(), format!("{} {}", limit, needed))
                }
                V::Interrupted => ("interrupted".into(), String::new()),
                V::Dead => ("dead".into(), String::new()),
                other => ("vm_other".into(), other.to_string()),
            }
        }
        E::Typecheck(_) => ("typecheck".into(), e.to_string()),
        E::Parse(_) => ("parse".into(), e.to_string()),
        E::Macro(_) => ("macro".into(), e.to_string()),
        E::IO(_) => ("io".into(), e.to_string()),
        E::Other(_) => ("other".into(), e.to_string()),
        E::Multiple(es) => {
            let mut classes: Vec<String> = es.iter().map(|x| classify(x).0).collect();
            classes.dedup();
            (format!("multiple:{}", classes.join("+")), e.to_string())
        }
    }
}

pub type Opaque = OpaqueValue<RootedThread, Hole>;

pub fn run(vm: &Thread, name: &str, src: &str) -> Outcome {
    match vm.run_expr::<Opaque>(name, src) {
        Ok((v, ty)) => {
            let tys = ty.to_string();
            match read_value(vm, v.get_variant(), &ty) {
                Ok(val) => Outcome::Value { val, ty: tys },
                Err(why) => Outcome::BadShape { why, ty: tys },
            }
        }
        Err(e) => {
            let (class, msg) = classify(&e);
            Outcome::Fail { class, msg }
        }
    }
}

/// (frames, stack length) of the thread's context
pub fn stack_shape(vm: &Thread) -> (usize, usize) {
    vm.verif_stack_shape()
}

//! Reference interpreter: strict, call-by-value, left-to-right, environment passing.
//! Shares no code with gluon.
use std::cell::RefCell;
use std::rc::Rc;

use super::ast::*;
use crate::gl::{norm_float, Val};

#[derive(Clone)]
pub enum V {
    Int(i64),
    Float(f64),
    Byte(u8),
    Char(char),
    Str(Rc<str>),
    Tag(Rc<str>, Rc<Vec<V>>),
    Record(Rc<Vec<(String, V)>>),
    Array(Rc<Vec<V>>),
    Clo(Rc<Closure>, Rc<Vec<V>>),
    /// constructor awaiting arguments: name, arity, collected
    ConFn(Rc<str>, usize, Rc<Vec<V>>),
}

pub struct Closure {
    pub params: Vec<String>,
    pub body: Tm,
    pub env: Env,
}

pub struct EnvNode {
    name: String,
    val: RefCell<Option<V>>,
    next: Env,
}

pub type Env = Option<Rc<EnvNode>>;

fn bind(env: &Env, name: &str, v: V) -> Env {
    Some(Rc::new(EnvNode {
        name: name.to_string(),
        val: RefCell::new(Some(v)),
        next: env.clone(),
    }))
}

fn lookup(env: &Env, name: &str) -> Option<V> {
    let mut cur = env;
    while let Some(n) = cur {
        if n.name == name {
            return n.val.borrow().clone();
        }
        cur = &n.next;
    }
    None
}

#[derive(Clone, Debug, PartialEq, serde::Serialize, serde::Deserialize)]
pub enum Failure {
    Error(String),
    Unmatched,
    Overflow,
    HostFail(i64),
    /// the reference interpreter ran out of its own budget (never compared)
    Budget,
    /// internal: ill-formed term (generator bug)
    Stuck(String),
}

pub struct Interp<'a> {
    pub decls: &'a [Decl],
    pub log: Vec<(char, i64)>,
    pub steps: u64,
    pub max_steps: u64,
    pub depth: u32,
    pub max_depth: u32,
    pub max_seen_depth: u32,
}

type R = Result<V, Failure>;

impl<'a> Interp<'a> {
    pub fn new(decls: &'a [Decl]) -> Interp<'a> {
        Interp {
            decls,
            log: vec![],
            steps: 0,
            max_steps: 2_000_000,
            depth: 0,
            max_depth: 4000,
            max_seen_depth: 0,
        }
    }

    fn ctor_arity(&self, name: &str) -> Option<usize> {
        match name {
            "True" | "False" | "None" => return Some(0),
            "Some" => return Some(1),
            _ => {}
        }
        for d in self.decls {
            for (c, args) in &d.ctors {
                if c == name {
                    return Some(args.len());
                }
            }
        }
        None
    }

    pub fn run(&mut self, t: &Tm) -> R {
        self.eval(t, &None)
    }

    fn eval(&mut self, t: &Tm, env: &Env) -> R {
        self.steps += 1;
        if self.steps > self.max_steps {
            return Err(Failure::Budget);
        }
        self.depth += 1;
        if self.depth > self.max_seen_depth {
            self.max_seen_depth = self.depth;
        }
        if self.depth > self.max_depth {
            self.depth -= 1;
            return Err(Failure::Budget);
        }
        let r = self.eval_(t, env);
        self.depth -= 1;
        r
    }

    fn eval_(&mut self, t: &Tm, env: &Env) -> R {
        match t {
            Tm::Lit(l) => Ok(match l {
                Lit::Int(i) => V::Int(*i),
                Lit::Float(b) => V::Float(f64::from_bits(*b)),
                Lit::Byte(b) => V::Byte(*b),
                Lit::Char(c) => V::Char(*c),
                Lit::Str(s) => V::Str(Rc::from(s.as_str())),
            }),
            Tm::Unit => Ok(V::Record(Rc::new(vec![]))),
            Tm::Var(v) => match lookup(env, v) {
                Some(x) => Ok(x),
                None => match self.ctor_arity(v) {
                    Some(0) => Ok(V::Tag(Rc::from(v.as_str()), Rc::new(vec![]))),
                    Some(n) => Ok(V::ConFn(Rc::from(v.as_str()), n, Rc::new(vec![]))),
                    None => Err(Failure::Stuck(format!("unbound variable {}", v))),
                },
            },
            Tm::Lam(ps, body) => Ok(V::Clo(
                Rc::new(Closure {
                    params: ps.clone(),
                    body: (**body).clone(),
                    env: env.clone(),
                }),
                Rc::new(vec![]),
            )),
            Tm::App(f, args) => {
                let fv = self.eval(f, env)?;
                let mut avs = Vec::with_capacity(args.len());
                for a in args {
                    avs.push(self.eval(a, env)?);
                }
                self.apply(fv, avs)
            }
            Tm::Let(b, body) => {
                let v = if b.params.is_empty() {
                    self.eval(&b.body, env)?
                } else {
                    V::Clo(
                        Rc::new(Closure {
                            params: b.params.clone(),
                            body: b.body.clone(),
                            env: env.clone(),
                        }),
                        Rc::new(vec![]),
                    )
                };
                let env2 = bind(env, &b.name, v);
                self.eval(body, &env2)
            }
            Tm::LetRec(bs, body) => {
                // allocate the nodes first, then tie the knot
                let mut env2 = env.clone();
                let mut nodes = vec![];
                for b in bs {
                    let n = Rc::new(EnvNode {
                        name: b.name.clone(),
                        val: RefCell::new(None),
                        next: env2.clone(),
                    });
                    nodes.push(n.clone());
                    env2 = Some(n);
                }
                for (b, n) in bs.iter().zip(nodes.iter()) {
                    let v = if b.params.is_empty() {
                        self.eval(&b.body, &env2)?
                    } else {
                        V::Clo(
                            Rc::new(Closure {
                                params: b.params.clone(),
                                body: b.body.clone(),
                                env: env2.clone(),
                            }),
                            Rc::new(vec![]),
                        )
                    };
                    *n.val.borrow_mut() = Some(v);
                }
                let r = self.eval(body, &env2);
                // break the reference cycles
                for n in nodes {
                    *n.val.borrow_mut() = None;
                }
                r
            }
            Tm::LetPat(p, e, body) => {
                let v = self.eval(e, env)?;
                let mut env2 = env.clone();
                if !self.matches(p, &v, &mut env2)? {
                    return Err(Failure::Unmatched);
                }
                self.eval(body, &env2)
            }
            Tm::If(c, a, b) => {
                let cv = self.eval(c, env)?;
                if is_true(&cv)? {
                    self.eval(a, env)
                } else {
                    self.eval(b, env)
                }
            }
            Tm::And(a, b) => {
                let av = self.eval(a, env)?;
                if is_true(&av)? {
                    self.eval(b, env)
                } else {
                    Ok(av)
                }
            }
            Tm::Or(a, b) => {
                let av = self.eval(a, env)?;
                if is_true(&av)? {
                    Ok(av)
                } else {
                    self.eval(b, env)
                }
            }
            Tm::Prim(op, num, _, a, b) => {
                let av = self.eval(a, env)?;
                let bv = self.eval(b, env)?;
                prim(*op, *num, av, bv)
            }
            Tm::Tuple(xs) => {
                let mut out = vec![];
                for (i, x) in xs.iter().enumerate() {
                    out.push((format!("_{}", i), self.eval(x, env)?));
                }
                Ok(V::Record(Rc::new(out)))
            }
            Tm::Record(fs) => {
                let mut out = vec![];
                for (n, x) in fs {
                    out.push((n.clone(), self.eval(x, env)?));
                }
                Ok(V::Record(Rc::new(out)))
            }
            Tm::Array(xs) => {
                let mut out = vec![];
                for x in xs {
                    out.push(self.eval(x, env)?);
                }
                Ok(V::Array(Rc::new(out)))
            }
            Tm::Proj(e, f) => {
                let v = self.eval(e, env)?;
                match v {
                    V::Record(fs) => fs
                        .iter()
                        .find(|(n, _)| n == f)
                        .map(|(_, v)| v.clone())
                        .ok_or_else(|| Failure::Stuck(format!("no field {}", f))),
                    _ => Err(Failure::Stuck("projection of a non-record".into())),
                }
            }
            Tm::Update(fs, base) => {
                // The generator guarantees that at most one initialiser can fail or perform a
                // host call, so the order among the initialisers is not observable (DESIGN 5.3).
                // evaluation follows the source: the field initialisers, then the base
                let mut newvals = vec![];
                for (n, x) in fs {
                    newvals.push((n.clone(), self.eval(x, env)?));
                }
                let bv = self.eval(base, env)?;
                let base_fields = match bv {
                    V::Record(fs) => fs,
                    _ => return Err(Failure::Stuck("update of a non-record".into())),
                };
                // documented layout: new fields first in source order, then the base's fields in
                // their positions with overrides applied
                let mut out: Vec<(String, V)> = vec![];
                for (n, v) in &newvals {
                    if !base_fields.iter().any(|(bn, _)| bn == n) {
                        out.push((n.clone(), v.clone()));
                    }
                }
                for (bn, bv) in base_fields.iter() {
                    match newvals.iter().find(|(n, _)| n == bn) {
                        Some((_, v)) => out.push((bn.clone(), v.clone())),
                        None => out.push((bn.clone(), bv.clone())),
                    }
                }
                Ok(V::Record(Rc::new(out)))
            }
            Tm::Con(c, args) => {
                let mut out = vec![];
                for a in args {
                    out.push(self.eval(a, env)?);
                }
                let arity = self
                    .ctor_arity(c)
                    .ok_or_else(|| Failure::Stuck(format!("unknown constructor {}", c)))?;
                if out.len() == arity {
                    Ok(V::Tag(Rc::from(c.as_str()), Rc::new(out)))
                } else if out.len() < arity {
                    Ok(V::ConFn(Rc::from(c.as_str()), arity, Rc::new(out)))
                } else {
                    Err(Failure::Stuck("constructor over-applied".into()))
                }
            }
            Tm::Match(s, arms) => {
                let v = self.eval(s, env)?;
                for (p, body) in arms {
                    let mut env2 = env.clone();
                    if self.matches(p, &v, &mut env2)? {
                        return self.eval(body, &env2);
                    }
                }
                Err(Failure::Unmatched)
            }
            Tm::Error(m) => Err(Failure::Error(m.clone())),
            Tm::Host(h, a) => {
                let v = self.eval(a, env)?;
                let i = match v {
                    V::Int(i) => i,
                    _ => return Err(Failure::Stuck("host call on non-int".into())),
                };
                match h {
                    Host::Log => {
                        self.log.push(('l', i));
                        Ok(V::Int(i))
                    }
                    Host::Tick => {
                        self.log.push(('t', i));
                        Ok(V::Int(i))
                    }
                    Host::Fail => {
                        self.log.push(('f', i));
                        Err(Failure::HostFail(i))
                    }
                }
            }
            Tm::HostFn(h) => {
                // eta-expanded: a closure calling the host function
                let clo = Closure {
                    params: vec!["hostarg__".to_string()],
                    body: Tm::Host(*h, Box::new(Tm::Var("hostarg__".to_string()))),
                    env: env.clone(),
                };
                Ok(V::Clo(Rc::new(clo), Rc::new(vec![])))
            }
            Tm::Ann(e, _) => self.eval(e, env),
        }
    }

    pub fn apply(&mut self, f: V, mut args: Vec<V>) -> R {
        if args.is_empty() {
            return Ok(f);
        }
        self.steps += 1;
        match f {
            V::Clo(c, have) => {
                let need = c.params.len() - have.len();
                if args.len() < need {
                    let mut h = (*have).clone();
                    h.extend(args);
                    return Ok(V::Clo(c, Rc::new(h)));
                }
                let rest = args.split_off(need);
                let mut env = c.env.clone();
                for (p, v) in c.params.iter().zip(have.iter().cloned().chain(args)) {
                    env = bind(&env, p, v);
                }
                let r = self.eval(&c.body, &env)?;
                self.apply(r, rest)
            }
            V::ConFn(name, arity, have) => {
                let need = arity - have.len();
                if args.len() > need {
                    return Err(Failure::Stuck("constructor over-applied".into()));
                }
                let mut h = (*have).clone();
                h.extend(args);
                if h.len() == arity {
                    Ok(V::Tag(name, Rc::new(h)))
                } else {
                    Ok(V::ConFn(name, arity, Rc::new(h)))
                }
            }
            _ => Err(Failure::Stuck("application of a non-function".into())),
        }
    }

    fn matches(&mut self, p: &Pat, v: &V, env: &mut Env) -> Result<bool, Failure> {
        Ok(match p {
            Pat::Wild => true,
            Pat::Var(x) => {
                *env = bind(env, x, v.clone());
                true
            }
            Pat::As(x, p) => {
                *env = bind(env, x, v.clone());
                self.matches(p, v, env)?
            }
            Pat::Lit(l) => match (l, v) {
                (Lit::Int(a), V::Int(b)) => a == b,
                (Lit::Byte(a), V::Byte(b)) => a == b,
                (Lit::Char(a), V::Char(b)) => a == b,
                (Lit::Str(a), V::Str(b)) => a.as_str() == &**b,
                (Lit::Float(a), V::Float(b)) => f64::from_bits(*a) == *b,
                _ => return Err(Failure::Stuck("literal pattern of another type".into())),
            },
            Pat::Tuple(ps) => match v {
                V::Record(fs) if fs.len() == ps.len() => {
                    for (p, (_, fv)) in ps.iter().zip(fs.iter()) {
                        if !self.matches(p, fv, env)? {
                            return Ok(false);
                        }
                    }
                    true
                }
                _ => return Err(Failure::Stuck("tuple pattern shape".into())),
            },
            Pat::Record(fps) => match v {
                V::Record(fs) => {
                    for (n, sub) in fps {
                        let fv = fs
                            .iter()
                            .find(|(fnm, _)| fnm == n)
                            .map(|(_, v)| v.clone())
                            .ok_or_else(|| Failure::Stuck(format!("record pattern: no field {}", n)))?;
                        match sub {
                            None => *env = bind(env, n, fv),
                            Some(p) => {
                                if !self.matches(p, &fv, env)? {
                                    return Ok(false);
                                }
                            }
                        }
                    }
                    true
                }
                _ => return Err(Failure::Stuck("record pattern on non-record".into())),
            },
            Pat::Con(c, ps) => match v {
                V::Tag(name, args) => {
                    if &**name != c.as_str() {
                        false
                    } else {
                        if args.len() != ps.len() {
                            return Err(Failure::Stuck("constructor pattern arity".into()));
                        }
                        for (p, a) in ps.iter().zip(args.iter()) {
                            if !self.matches(p, a, env)? {
                                return Ok(false);
                            }
                        }
                        true
                    }
                }
                _ => return Err(Failure::Stuck("constructor pattern on non-variant".into())),
            },
        })
    }
}

fn is_true(v: &V) -> Result<bool, Failure> {
    match v {
        V::Tag(n, _) if &**n == "True" => Ok(true),
        V::Tag(n, _) if &**n == "False" => Ok(false),
        _ => Err(Failure::Stuck("condition is not a Bool".into())),
    }
}

fn boolv(b: bool) -> V {
    V::Tag(Rc::from(if b { "True" } else { "False" }), Rc::new(vec![]))
}

fn prim(op: Op, num: Num, a: V, b: V) -> R {
    match (num, a, b) {
        (Num::Int, V::Int(x), V::Int(y)) => match op {
            Op::Add => x.checked_add(y).map(V::Int).ok_or(Failure::Overflow),
            Op::Sub => x.checked_sub(y).map(V::Int).ok_or(Failure::Overflow),
            Op::Mul => x.checked_mul(y).map(V::Int).ok_or(Failure::Overflow),
            Op::Div => x.checked_div(y).map(V::Int).ok_or(Failure::Overflow),
            Op::Eq => Ok(boolv(x == y)),
            Op::Lt => Ok(boolv(x < y)),
        },
        (Num::Byte, V::Byte(x), V::Byte(y)) => match op {
            Op::Add => x.checked_add(y).map(V::Byte).ok_or(Failure::Overflow),
            Op::Sub => x.checked_sub(y).map(V::Byte).ok_or(Failure::Overflow),
            Op::Mul => x.checked_mul(y).map(V::Byte).ok_or(Failure::Overflow),
            Op::Div => x.checked_div(y).map(V::Byte).ok_or(Failure::Overflow),
            Op::Eq => Ok(boolv(x == y)),
            Op::Lt => Ok(boolv(x < y)),
        },
        (Num::Float, V::Float(x), V::Float(y)) => Ok(match op {
            Op::Add => V::Float(x + y),
            Op::Sub => V::Float(x - y),
            Op::Mul => V::Float(x * y),
            Op::Div => V::Float(x / y),
            Op::Eq => boolv(x == y),
            Op::Lt => boolv(x < y),
        }),
        (Num::Char, V::Char(x), V::Char(y)) => match op {
            Op::Eq => Ok(boolv(x == y)),
            Op::Lt => Ok(boolv(x < y)),
            _ => Err(Failure::Stuck("char arithmetic".into())),
        },
        (Num::Str, V::Str(x), V::Str(y)) => match op {
            Op::Eq => Ok(boolv(x == y)),
            Op::Lt => Ok(boolv(x < y)),
            _ => Err(Failure::Stuck("string arithmetic".into())),
        },
        _ => Err(Failure::Stuck("primitive operand types".into())),
    }
}

/// converts an interpreter value to the harness `Val` used for comparison with gluon
pub fn to_val(v: &V) -> Val {
    match v {
        V::Int(i) => Val::Int(*i),
        V::Float(f) => Val::Float(norm_float(*f)),
        V::Byte(b) => Val::Byte(*b),
        V::Char(c) => Val::Char(*c as u32),
        V::Str(s) => Val::Str(s.to_string()),
        V::Tag(n, args) => Val::Tag(n.to_string(), args.iter().map(to_val).collect()),
        V::Record(fs) => Val::Record(fs.iter().map(|(n, v)| (n.clone(), to_val(v))).collect()),
        V::Array(xs) => Val::Array(xs.iter().map(to_val).collect()),
        V::Clo(..) | V::ConFn(..) => Val::Fun,
    }
}

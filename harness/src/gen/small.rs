//! Exhaustive enumeration of all well-typed closed terms up to a node count over a reduced
//! grammar (the exhaustive core of C01): literals 0/1/True/False/None, variables, let, lambda,
//! application (partial and over-application arise from curried function types), tuple and record
//! construction and projection, Some, match on Option / Bool, if, `#Int+`, `#Int<`, error.
use std::collections::BTreeMap;

use super::ast::*;

fn fun(a: Ty, b: Ty) -> Ty {
    Ty::Fun(Box::new(a), Box::new(b))
}

fn rec_ty() -> Ty {
    Ty::Record(vec![("x".into(), Ty::Int), ("y".into(), Ty::Bool)])
}

fn pair_ty() -> Ty {
    Ty::Tuple(vec![Ty::Int, Ty::Int])
}

/// types a `let` may bind / an argument may have
fn universe() -> Vec<Ty> {
    vec![
        Ty::Int,
        Ty::Bool,
        pair_ty(),
        rec_ty(),
        Ty::Opt(Box::new(Ty::Int)),
        fun(Ty::Int, Ty::Int),
        fun(Ty::Int, fun(Ty::Int, Ty::Int)),
    ]
}

type Env = Vec<(String, Ty)>;

pub struct Enumerator {
    memo: BTreeMap<(String, String, usize), Vec<Tm>>,
    fresh: usize,
}

fn env_key(env: &Env) -> String {
    env.iter().map(|(n, t)| format!("{}:{:?};", n, t)).collect()
}

impl Enumerator {
    pub fn new() -> Enumerator {
        Enumerator { memo: BTreeMap::new(), fresh: 0 }
    }
    /// all terms of type `goal` with exactly `n` nodes
    pub fn terms(&mut self, goal: &Ty, env: &Env, n: usize) -> Vec<Tm> {
        if n == 0 {
            return vec![];
        }
        let key = (format!("{:?}", goal), env_key(env), n);
        if let Some(v) = self.memo.get(&key) {
            return v.clone();
        }
        let mut out: Vec<Tm> = vec![];
        if n == 1 {
            match goal {
                Ty::Int => {
                    out.push(Tm::Lit(Lit::Int(0)));
                    out.push(Tm::Lit(Lit::Int(1)));
                }
                Ty::Bool => {
                    out.push(Tm::Var("True".into()));
                    out.push(Tm::Var("False".into()));
                }
                Ty::Opt(_) => out.push(Tm::Var("None".into())),
                _ => {}
            }
            for (x, t) in env.iter() {
                if t == goal {
                    out.push(Tm::Var(x.clone()));
                }
            }
            // a failing leaf for scalar goals
            if matches!(goal, Ty::Int) {
                out.push(Tm::Error("e".into()));
            }
        } else {
            let split2 = |n: usize| -> Vec<(usize, usize)> { (1..n).map(|a| (a, n - a)).collect() };
            // if c then a else b
            if n >= 4 {
                for a in 1..n - 2 {
                    for b in 1..n - 1 - a {
                        let c = n - 1 - a - b;
                        for tc in self.terms(&Ty::Bool, env, a) {
                            for ta in self.terms(goal, env, b) {
                                for tb in self.terms(goal, env, c) {
                                    out.push(Tm::If(Box::new(tc.clone()), Box::new(ta.clone()), Box::new(tb)));
                                }
                            }
                        }
                    }
                }
            }
            match goal {
                Ty::Int => {
                    for (a, b) in split2(n - 1) {
                        for x in self.terms(&Ty::Int, env, a) {
                            for y in self.terms(&Ty::Int, env, b) {
                                out.push(Tm::Prim(Op::Add, Num::Int, true, Box::new(x.clone()), Box::new(y)));
                            }
                        }
                    }
                    // projections
                    for e in self.terms(&pair_ty(), env, n - 1) {
                        out.push(Tm::Proj(Box::new(e.clone()), "_0".into()));
                        out.push(Tm::Proj(Box::new(e), "_1".into()));
                    }
                    for e in self.terms(&rec_ty(), env, n - 1) {
                        out.push(Tm::Proj(Box::new(e), "x".into()));
                    }
                }
                Ty::Bool => {
                    for (a, b) in split2(n - 1) {
                        for x in self.terms(&Ty::Int, env, a) {
                            for y in self.terms(&Ty::Int, env, b) {
                                out.push(Tm::Prim(Op::Lt, Num::Int, true, Box::new(x.clone()), Box::new(y)));
                            }
                        }
                    }
                    for e in self.terms(&rec_ty(), env, n - 1) {
                        out.push(Tm::Proj(Box::new(e), "y".into()));
                    }
                }
                Ty::Tuple(_) => {
                    for (a, b) in split2(n - 1) {
                        for x in self.terms(&Ty::Int, env, a) {
                            for y in self.terms(&Ty::Int, env, b) {
                                out.push(Tm::Tuple(vec![x.clone(), y]));
                            }
                        }
                    }
                }
                Ty::Record(_) => {
                    for (a, b) in split2(n - 1) {
                        for x in self.terms(&Ty::Int, env, a) {
                            for y in self.terms(&Ty::Bool, env, b) {
                                out.push(Tm::Record(vec![("x".into(), x.clone()), ("y".into(), y)]));
                            }
                        }
                    }
                }
                Ty::Opt(e) => {
                    for x in self.terms(e, env, n - 1) {
                        out.push(Tm::Con("Some".into(), vec![x]));
                    }
                }
                Ty::Fun(a, b) => {
                    // \x -> body
                    self.fresh += 1;
                    let x = format!("a{}", env.len());
                    let mut env2 = env.clone();
                    env2.push((x.clone(), (**a).clone()));
                    for body in self.terms(b, &env2, n - 1) {
                        out.push(Tm::Lam(vec![x.clone()], Box::new(body)));
                    }
                }
                _ => {}
            }
            // application f a with a : Int or Bool (partial application when goal is a function,
            // over-application when f's result is a function applied again by the caller)
            for arg_ty in [Ty::Int, Ty::Bool] {
                let fty = fun(arg_ty.clone(), goal.clone());
                if ty_depth(&fty) > 3 {
                    continue;
                }
                for (a, b) in split2(n - 1) {
                    for f in self.terms(&fty, env, a) {
                        for x in self.terms(&arg_ty, env, b) {
                            out.push(Tm::App(Box::new(f.clone()), vec![x]));
                        }
                    }
                }
            }
            // match on an option / a bool
            if n >= 4 {
                for a in 1..n - 2 {
                    for b in 1..n - 1 - a {
                        let c = n - 1 - a - b;
                        let v = format!("m{}", env.len());
                        let mut env2 = env.clone();
                        env2.push((v.clone(), Ty::Int));
                        for s in self.terms(&Ty::Opt(Box::new(Ty::Int)), env, a) {
                            for x in self.terms(goal, &env2, b) {
                                for y in self.terms(goal, env, c) {
                                    out.push(Tm::Match(
                                        Box::new(s.clone()),
                                        vec![
                                            (Pat::Con("Some".into(), vec![Pat::Var(v.clone())]), x.clone()),
                                            (Pat::Con("None".into(), vec![]), y),
                                        ],
                                    ));
                                }
                            }
                        }
                    }
                }
            }
            // let x = e in body
            for t in universe() {
                for (a, b) in split2(n - 1) {
                    let x = format!("v{}", env.len());
                    let mut env2 = env.clone();
                    env2.push((x.clone(), t.clone()));
                    let rhs = self.terms(&t, env, a);
                    if rhs.is_empty() {
                        continue;
                    }
                    let bodies = self.terms(goal, &env2, b);
                    for r in &rhs {
                        for body in &bodies {
                            // only bodies that use the binding or rhs that can fail are interesting;
                            // keep all: the count is what the bound n is chosen by
                            out.push(Tm::Let(
                                Box::new(FunBind { name: x.clone(), params: vec![], ty: None, body: r.clone() }),
                                Box::new(body.clone()),
                            ));
                        }
                    }
                }
            }
        }
        self.memo.insert(key, out.clone());
        out
    }
}

fn ty_depth(t: &Ty) -> usize {
    match t {
        Ty::Fun(a, b) => 1 + ty_depth(a).max(ty_depth(b)),
        _ => 0,
    }
}

/// all closed terms of the result types with at most `max` nodes
pub fn all_terms(max: usize) -> Vec<(Ty, Tm)> {
    let mut e = Enumerator::new();
    let mut out = vec![];
    for goal in [Ty::Int, Ty::Bool, pair_ty(), rec_ty(), Ty::Opt(Box::new(Ty::Int))] {
        for n in 1..=max {
            for t in e.terms(&goal, &vec![], n) {
                out.push((goal.clone(), t));
            }
        }
    }
    out
}

//! Harness-side typed AST for generated Gluon programs (independent of gluon's own AST).
use serde::{Deserialize, Serialize};

#[derive(Clone, Debug, PartialEq, Eq, Hash, Serialize, Deserialize, PartialOrd, Ord)]
pub enum Ty {
    Int,
    Float,
    Byte,
    Char,
    Str,
    Bool,
    Unit,
    Fun(Box<Ty>, Box<Ty>),
    Tuple(Vec<Ty>),
    Record(Vec<(String, Ty)>),
    /// declared variant type (index into Program.decls) applied to arguments
    Data(usize, Vec<Ty>),
    Array(Box<Ty>),
    /// std.types.Option
    Opt(Box<Ty>),
    /// type parameter of a declaration
    Var(u8),
}

impl Ty {
    pub fn fun(args: &[Ty], ret: Ty) -> Ty {
        let mut t = ret;
        for a in args.iter().rev() {
            t = Ty::Fun(Box::new(a.clone()), Box::new(t));
        }
        t
    }
    /// splits `A -> B -> C` into ([A, B], C)
    pub fn uncurry(&self) -> (Vec<Ty>, Ty) {
        let mut args = vec![];
        let mut t = self;
        while let Ty::Fun(a, r) = t {
            args.push((**a).clone());
            t = r;
        }
        (args, t.clone())
    }
    pub fn first_order(&self) -> bool {
        match self {
            Ty::Fun(..) => false,
            Ty::Tuple(ts) => ts.iter().all(|t| t.first_order()),
            Ty::Record(fs) => fs.iter().all(|(_, t)| t.first_order()),
            Ty::Data(_, ts) => ts.iter().all(|t| t.first_order()),
            Ty::Array(t) | Ty::Opt(t) => t.first_order(),
            _ => true,
        }
    }
    pub fn subst(&self, args: &[Ty]) -> Ty {
        match self {
            Ty::Var(i) => args.get(*i as usize).cloned().unwrap_or(Ty::Int),
            Ty::Fun(a, b) => Ty::Fun(Box::new(a.subst(args)), Box::new(b.subst(args))),
            Ty::Tuple(ts) => Ty::Tuple(ts.iter().map(|t| t.subst(args)).collect()),
            Ty::Record(fs) => Ty::Record(fs.iter().map(|(n, t)| (n.clone(), t.subst(args))).collect()),
            Ty::Data(d, ts) => Ty::Data(*d, ts.iter().map(|t| t.subst(args)).collect()),
            Ty::Array(t) => Ty::Array(Box::new(t.subst(args))),
            Ty::Opt(t) => Ty::Opt(Box::new(t.subst(args))),
            t => t.clone(),
        }
    }
}

#[derive(Clone, Debug, PartialEq, Serialize, Deserialize)]
pub struct Decl {
    pub name: String,
    pub params: u8,
    /// constructor name, argument types (may mention Var(i) and Data(self))
    pub ctors: Vec<(String, Vec<Ty>)>,
}

#[derive(Clone, Debug, PartialEq, Serialize, Deserialize)]
pub enum Lit {
    Int(i64),
    /// bits
    Float(u64),
    Byte(u8),
    Char(char),
    Str(String),
}

#[derive(Clone, Copy, Debug, PartialEq, Eq, Hash, Serialize, Deserialize)]
pub enum Num {
    Int,
    Byte,
    Float,
    Char,
    Str,
}

#[derive(Clone, Copy, Debug, PartialEq, Eq, Hash, Serialize, Deserialize)]
pub enum Op {
    Add,
    Sub,
    Mul,
    Div,
    Eq,
    Lt,
}

#[derive(Clone, Copy, Debug, PartialEq, Eq, Hash, Serialize, Deserialize)]
pub enum Host {
    Log,
    Tick,
    Fail,
}

#[derive(Clone, Debug, PartialEq, Serialize, Deserialize)]
pub enum Pat {
    Wild,
    Var(String),
    Lit(Lit),
    Tuple(Vec<Pat>),
    /// field, optional sub-pattern (None = bind the field name)
    Record(Vec<(String, Option<Pat>)>),
    Con(String, Vec<Pat>),
    As(String, Box<Pat>),
}

#[derive(Clone, Debug, PartialEq, Serialize, Deserialize)]
pub struct FunBind {
    pub name: String,
    pub params: Vec<String>,
    /// full type of the function, printed as a signature when `annotate` is set
    pub ty: Option<Ty>,
    pub body: Tm,
}

#[derive(Clone, Debug, PartialEq, Serialize, Deserialize)]
pub enum Tm {
    Lit(Lit),
    Unit,
    Var(String),
    Lam(Vec<String>, Box<Tm>),
    App(Box<Tm>, Vec<Tm>),
    /// let name params = rhs in body (params empty = value binding); optional annotation
    Let(Box<FunBind>, Box<Tm>),
    LetRec(Vec<FunBind>, Box<Tm>),
    LetPat(Pat, Box<Tm>, Box<Tm>),
    If(Box<Tm>, Box<Tm>, Box<Tm>),
    /// operator, operand kind, `#Int+` style (true) or prelude operator (false)
    Prim(Op, Num, bool, Box<Tm>, Box<Tm>),
    And(Box<Tm>, Box<Tm>),
    Or(Box<Tm>, Box<Tm>),
    Tuple(Vec<Tm>),
    Record(Vec<(String, Tm)>),
    Proj(Box<Tm>, String),
    /// { f = e, .. base }
    Update(Vec<(String, Tm)>, Box<Tm>),
    Con(String, Vec<Tm>),
    Array(Vec<Tm>),
    Match(Box<Tm>, Vec<(Pat, Tm)>),
    Error(String),
    Host(Host, Box<Tm>),
    /// a host function as a value (`h.log : Int -> Int`), so that it can be aliased, stored in
    /// records, passed around and called indirectly
    HostFn(Host),
    /// expression with a type annotation: (e : T)
    Ann(Box<Tm>, Ty),
}

#[derive(Clone, Debug, PartialEq, Serialize, Deserialize)]
pub struct Program {
    pub decls: Vec<Decl>,
    pub body: Tm,
    pub ty: Ty,
    pub uses_host: bool,
    /// feature tags recorded by the generator (construct classes)
    pub features: Vec<String>,
}

impl Tm {
    pub fn is_block(&self) -> bool {
        matches!(
            self,
            Tm::Let(..) | Tm::LetRec(..) | Tm::LetPat(..) | Tm::Match(..)
        )
    }
    pub fn size(&self) -> usize {
        let mut n = 1;
        self.visit(&mut |_| n += 1);
        n
    }
    /// pre-order visit of all sub-terms (excluding self)
    pub fn visit(&self, f: &mut dyn FnMut(&Tm)) {
        let mut go = |t: &Tm| {
            f(t);
            t.visit(f);
        };
        match self {
            Tm::Lit(_) | Tm::Unit | Tm::Var(_) | Tm::Error(_) | Tm::HostFn(_) => {}
            Tm::Lam(_, b) => go(b),
            Tm::App(a, bs) => {
                go(a);
                for b in bs {
                    go(b)
                }
            }
            Tm::Let(b, body) => {
                go(&b.body);
                go(body)
            }
            Tm::LetRec(bs, body) => {
                for b in bs {
                    go(&b.body)
                }
                go(body)
            }
            Tm::LetPat(_, a, b) => {
                go(a);
                go(b)
            }
            Tm::If(a, b, c) => {
                go(a);
                go(b);
                go(c)
            }
            Tm::Prim(_, _, _, a, b) | Tm::And(a, b) | Tm::Or(a, b) => {
                go(a);
                go(b)
            }
            Tm::Tuple(xs) | Tm::Array(xs) | Tm::Con(_, xs) => {
                for x in xs {
                    go(x)
                }
            }
            Tm::Record(fs) => {
                for (_, x) in fs {
                    go(x)
                }
            }
            Tm::Proj(a, _) | Tm::Host(_, a) | Tm::Ann(a, _) => go(a),
            Tm::Update(fs, b) => {
                for (_, x) in fs {
                    go(x)
                }
                go(b)
            }
            Tm::Match(s, arms) => {
                go(s);
                for (_, x) in arms {
                    go(x)
                }
            }
        }
    }
}

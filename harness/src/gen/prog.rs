//! Type-directed program generator driven by a choice tape.  Construction, not rejection: every
//! term is built for a goal type in a typed scope, and recursion only goes through generated
//! functions that decrease an Int fuel argument.
use std::collections::BTreeSet;

use super::ast::*;
use crate::tape::Tape;

#[derive(Clone, Debug)]
pub struct GenCfg {
    pub max_size: usize,
    /// only `#Int+` style primitives (no implicit-argument resolution needed)
    pub hash_only: bool,
    pub allow_fail: bool,
    pub allow_host: bool,
    pub allow_float: bool,
    /// functions may appear inside the result type
    pub allow_fun_result: bool,
    /// features the generator is told to avoid (known findings), counted by the caller
    pub avoid: Vec<String>,
    /// put discarded effectful bindings into the program (C04)
    pub discard_bias: bool,
    /// no `type` declarations (the result type then only mentions built-in types)
    pub no_decls: bool,
}

impl Default for GenCfg {
    fn default() -> Self {
        GenCfg {
            max_size: 40,
            hash_only: false,
            allow_fail: true,
            allow_host: true,
            allow_float: true,
            allow_fun_result: false,
            avoid: vec![],
            discard_bias: false,
            no_decls: false,
        }
    }
}

#[derive(Clone, Debug)]
struct SVar {
    name: String,
    ty: Ty,
}

type Scope = Vec<SVar>;

pub struct Gen<'t, 'a> {
    t: &'t mut Tape<'a>,
    pub decls: Vec<Decl>,
    fresh: u32,
    cfg: GenCfg,
    uses_host: bool,
    poly_used: BTreeSet<&'static str>,
    rec_depth: u32,
    /// the term being generated stands in a block position (let rhs/body, arm body, ...)
    block: bool,
    /// > 0 while generating the body of a lambda (parameter types unknown to gluon's checker
    /// until unification, so no implicit-argument operators on them)
    in_lambda: u32,
    /// record patterns allowed in the pattern being generated (known finding: a match with two
    /// record-pattern arms does not compile)
    allow_record_pat: bool,
    /// literals from a two/three element pool (dense decision trees in generated matches)
    small_lits: bool,
    feature_dense_match: bool,
    pub excluded_second_record_pattern: u32,
}

const FIELD_POOL: &[&str] = &["a", "b", "c", "x", "y", "z", "w", "u", "k", "m"];

pub fn gen_program(t: &mut Tape, cfg: GenCfg) -> Program {
    gen_program_with(t, cfg, &[])
}

/// `outer`: variables already in scope (e.g. imported modules) with their types
pub fn gen_program_with(t: &mut Tape, cfg: GenCfg, outer: &[(String, Ty)]) -> Program {
    let mut g = Gen {
        t,
        decls: vec![],
        fresh: 0,
        cfg,
        uses_host: false,
        poly_used: BTreeSet::new(),
        rec_depth: 0,
        block: true,
        in_lambda: 0,
        allow_record_pat: true,
        small_lits: false,
        feature_dense_match: false,
        excluded_second_record_pattern: 0,
    };
    if !g.cfg.no_decls {
        g.gen_decls();
    }
    let ty = g.gen_ty(2, g.cfg.allow_fun_result);
    let size = g.cfg.max_size;
    let scope: Scope = outer
        .iter()
        .map(|(n, t)| SVar { name: n.clone(), ty: t.clone() })
        .collect();
    let body = g.tm(&ty, &scope, size);
    let body = g.wrap_poly(body);
    let mut p = Program {
        decls: g.decls.clone(),
        body,
        ty,
        uses_host: g.uses_host,
        features: vec![],
    };
    p.features = features(&p).into_iter().collect();
    if g.excluded_second_record_pattern > 0 {
        p.features.push("excluded:second_record_pattern_arm".into());
    }
    if g.feature_dense_match {
        p.features.push("dense_literal_match".into());
    }
    if ["p_box", "p_pairf", "p_keep", "p_nest"].iter().any(|n| g.poly_used.contains(n)) {
        p.features.push("poly_closure_in_structure".into());
    }
    p
}

impl<'t, 'a> Gen<'t, 'a> {
    fn name(&mut self, prefix: &str) -> String {
        self.fresh += 1;
        format!("{}{}", prefix, self.fresh)
    }

    fn gen_decls(&mut self) {
        let n = self.t.pick(3);
        for d in 0..n {
            let params = self.t.pick(2) as u8;
            let nct = 1 + self.t.pick(4);
            let mut ctors = vec![];
            for c in 0..nct {
                let nargs = self.t.pick(4);
                let mut args = vec![];
                for _ in 0..nargs {
                    let k = self.t.pick(8);
                    let a = match k {
                        0 | 1 => Ty::Int,
                        2 => Ty::Str,
                        3 => Ty::Bool,
                        4 => {
                            if self.cfg.allow_float {
                                Ty::Float
                            } else {
                                Ty::Int
                            }
                        }
                        5 => {
                            if params > 0 {
                                Ty::Var(0)
                            } else {
                                Ty::Byte
                            }
                        }
                        6 => {
                            if c > 0 {
                                // recursive occurrence, same parameters
                                Ty::Data(d, (0..params).map(Ty::Var).collect())
                            } else {
                                Ty::Char
                            }
                        }
                        _ => Ty::Tuple(vec![Ty::Int, Ty::Str]),
                    };
                    args.push(a);
                }
                ctors.push((format!("K{}{}", d, (b'a' + c as u8) as char), args));
            }
            self.decls.push(Decl {
                name: format!("T{}", d),
                params,
                ctors,
            });
        }
    }

    pub fn gen_ty(&mut self, depth: usize, allow_fun: bool) -> Ty {
        let k = self.t.pick(if depth == 0 { 9 } else { 16 });
        match k {
            0 | 1 | 2 => Ty::Int,
            3 => Ty::Bool,
            4 => Ty::Str,
            5 => {
                if self.cfg.allow_float {
                    Ty::Float
                } else {
                    Ty::Int
                }
            }
            6 => Ty::Byte,
            7 => Ty::Char,
            8 => Ty::Unit,
            9 => {
                let n = 2 + self.t.pick(2);
                Ty::Tuple((0..n).map(|_| self.gen_ty(depth - 1, allow_fun)).collect())
            }
            10 | 11 => {
                let n = if self.t.chance(1, 4) {
                    5 + self.t.pick(4)
                } else {
                    self.t.pick(5)
                };
                let mut names: Vec<&str> = FIELD_POOL.to_vec();
                let mut fs = vec![];
                for _ in 0..n.min(names.len()) {
                    let i = self.t.pick(names.len());
                    let nm = names.remove(i);
                    fs.push((nm.to_string(), self.gen_ty(depth - 1, allow_fun)));
                }
                Ty::Record(fs)
            }
            12 => {
                if self.decls.is_empty() {
                    Ty::Opt(Box::new(self.gen_ty(depth - 1, allow_fun)))
                } else {
                    let d = self.t.pick(self.decls.len());
                    let args = (0..self.decls[d].params)
                        .map(|_| self.gen_ty(0, false))
                        .collect();
                    Ty::Data(d, args)
                }
            }
            13 => Ty::Array(Box::new(self.gen_ty(0, false))),
            14 => Ty::Opt(Box::new(self.gen_ty(depth - 1, allow_fun))),
            _ => {
                if allow_fun {
                    let a = self.gen_ty(depth - 1, false);
                    let b = self.gen_ty(depth - 1, true);
                    Ty::Fun(Box::new(a), Box::new(b))
                } else {
                    Ty::Int
                }
            }
        }
    }

    fn lit(&mut self, ty: &Ty) -> Lit {
        if self.small_lits {
            return match ty {
                Ty::Int => Lit::Int([0, 1, 2][self.t.pick(3)]),
                Ty::Byte => Lit::Byte([0u8, 1][self.t.pick(2)]),
                Ty::Char => Lit::Char(['a', 'b'][self.t.pick(2)]),
                Ty::Str => Lit::Str(["", "a", "ab"][self.t.pick(3)].to_string()),
                Ty::Float => Lit::Float(0f64.to_bits()),
                _ => Lit::Int(0),
            };
        }
        match ty {
            Ty::Int => {
                let pool: [i64; 14] = [0, 1, 2, 3, -1, 5, 7, 10, -3, 100, 1000, 63, i64::MAX, i64::MIN + 1];
                let n = if self.cfg.allow_fail { pool.len() } else { pool.len() - 2 };
                Lit::Int(pool[self.t.pick(n)])
            }
            Ty::Float => {
                let pool = [0.0f64, 1.0, 0.5, 1.5, -2.25, 3.0, 100.0, 1e10, -0.0, 0.1];
                Lit::Float(pool[self.t.pick(pool.len())].to_bits())
            }
            Ty::Byte => {
                let pool = [0u8, 1, 2, 3, 10, 100, 200, 255];
                Lit::Byte(pool[self.t.pick(pool.len())])
            }
            Ty::Char => {
                let pool = ['a', 'b', 'z', '0', ' ', 'A', 'é', '中'];
                Lit::Char(pool[self.t.pick(pool.len())])
            }
            Ty::Str => {
                let pool = ["", "a", "b", "ab", "hello", "é", "x y", "日本", "a\"b", "0"];
                Lit::Str(pool[self.t.pick(pool.len())].to_string())
            }
            _ => Lit::Int(0),
        }
    }

    /// smallest closed term of the type (no scope use)
    fn leaf(&mut self, ty: &Ty) -> Tm {
        match ty {
            Ty::Int | Ty::Float | Ty::Byte | Ty::Char | Ty::Str => Tm::Lit(self.lit(ty)),
            Ty::Bool => Tm::Var(if self.t.chance(1, 2) { "True" } else { "False" }.into()),
            Ty::Unit => Tm::Unit,
            Ty::Var(_) => Tm::Lit(Lit::Int(0)),
            Ty::Fun(_, b) => {
                let x = self.name("p");
                let body = self.leaf(b);
                Tm::Lam(vec![x], Box::new(body))
            }
            Ty::Tuple(ts) => Tm::Tuple(ts.iter().map(|t| self.leaf(t)).collect()),
            Ty::Record(fs) => Tm::Record(
                fs.iter()
                    .map(|(n, t)| {
                        let e = self.leaf(t);
                        (n.clone(), self.guard_field(e, t))
                    })
                    .collect(),
            ),
            Ty::Array(e) => {
                let n = self.t.pick(3);
                Tm::Array((0..n).map(|_| self.leaf(e)).collect())
            }
            Ty::Opt(e) => {
                if self.t.chance(1, 2) {
                    Tm::Con("Some".into(), vec![self.leaf(e)])
                } else {
                    Tm::Var("None".into())
                }
            }
            Ty::Data(d, args) => {
                let (c, cargs) = self.decls[*d].ctors[0].clone();
                let xs: Vec<Tm> = cargs.iter().map(|a| self.leaf(&a.subst(args))).collect();
                if xs.is_empty() {
                    Tm::Var(c)
                } else {
                    Tm::Con(c, xs)
                }
            }
        }
    }

    fn var_of(&mut self, ty: &Ty, sc: &Scope) -> Option<Tm> {
        let cands: Vec<&SVar> = sc.iter().filter(|v| &v.ty == ty).collect();
        if cands.is_empty() {
            return None;
        }
        // bias toward recently bound names: index 0 = most recent
        let i = self.t.pick(cands.len());
        Some(Tm::Var(cands[cands.len() - 1 - i].name.clone()))
    }

    fn leaf_or_var(&mut self, ty: &Ty, sc: &Scope) -> Tm {
        if let Some(v) = self.var_of(ty, sc) {
            if !self.t.chance(1, 4) {
                return v;
            }
        }
        self.leaf(ty)
    }

    /// constructor form of the type with generated components
    fn value(&mut self, ty: &Ty, sc: &Scope, size: usize) -> Tm {
        let sub = size / 2;
        match ty {
            Ty::Tuple(ts) => Tm::Tuple(ts.iter().map(|t| self.inl(t, sc, sub / ts.len().max(1))).collect()),
            Ty::Record(fs) => Tm::Record(
                fs.iter()
                    .map(|(n, t)| {
                        // a scalar variable in scope that has the field's name and type is often
                        // used for the field: printed with the `{ x }` shorthand
                        let scalar = matches!(t, Ty::Int | Ty::Float | Ty::Byte | Ty::Char | Ty::Str | Ty::Bool | Ty::Unit);
                        let same = sc.iter().rev().find(|v| v.name == *n).map(|v| v.ty == *t).unwrap_or(false);
                        if scalar && same && self.t.chance(2, 3) {
                            return (n.clone(), Tm::Var(n.clone()));
                        }
                        let e = self.inl(t, sc, sub / fs.len().max(1));
                        (n.clone(), self.guard_field(e, t))
                    })
                    .collect(),
            ),
            Ty::Array(e) => {
                let n = self.t.pick(5);
                Tm::Array((0..n).map(|_| self.inl(e, sc, sub / n.max(1))).collect())
            }
            Ty::Opt(e) => {
                if self.t.chance(3, 4) {
                    Tm::Con("Some".into(), vec![self.inl(e, sc, sub)])
                } else {
                    Tm::Var("None".into())
                }
            }
            Ty::Data(d, args) => {
                let nct = self.decls[*d].ctors.len();
                let ci = if size < 4 { 0 } else { self.t.pick(nct) };
                let (c, cargs) = self.decls[*d].ctors[ci].clone();
                let xs: Vec<Tm> = cargs
                    .iter()
                    .map(|a| self.inl(&a.subst(args), sc, sub / cargs.len().max(1)))
                    .collect();
                if xs.is_empty() {
                    Tm::Var(c)
                } else {
                    Tm::Con(c, xs)
                }
            }
            Ty::Fun(a, b) if self.cfg.allow_host && **a == Ty::Int && **b == Ty::Int && self.t.chance(1, 4) => {
                // a host function as a value: aliased, stored, passed on and called indirectly
                self.uses_host = true;
                let h = match self.t.pick(6) {
                    0 if self.cfg.allow_fail => Host::Fail,
                    1 | 2 => Host::Tick,
                    _ => Host::Log,
                };
                Tm::HostFn(h)
            }
            Ty::Fun(a, b) => {
                // lambda, possibly with several parameters when the result is a function too
                let mut params = vec![];
                let mut sc2 = sc.clone();
                let x = self.name("p");
                sc2.push(SVar { name: x.clone(), ty: (**a).clone() });
                params.push(x);
                let mut ret: &Ty = b;
                while let Ty::Fun(a2, b2) = ret {
                    if !self.t.chance(1, 2) {
                        break;
                    }
                    let y = self.name("p");
                    sc2.push(SVar { name: y.clone(), ty: (**a2).clone() });
                    params.push(y);
                    ret = b2;
                }
                self.in_lambda += 1;
                let body = self.tm(ret, &sc2, sub);
                self.in_lambda -= 1;
                Tm::Lam(params, Box::new(body))
            }
            _ => self.leaf_or_var(ty, sc),
        }
    }

    fn use_hash(&mut self, num: Num) -> bool {
        if self.cfg.hash_only || self.in_lambda > 0 {
            return true;
        }
        match num {
            // the implicit prelude has no Num/Ord instances for these
            Num::Byte | Num::Char => true,
            _ => self.t.chance(1, 3),
        }
    }

    fn arith(&mut self, ty: &Ty, sc: &Scope, size: usize) -> Tm {
        let num = match ty {
            Ty::Int => Num::Int,
            Ty::Float => Num::Float,
            _ => Num::Byte,
        };
        if !self.cfg.allow_fail && num == Num::Byte {
            // Byte arithmetic overflows too easily for programs that must not fail
            return self.leaf_or_var(ty, sc);
        }
        let ops: &[Op] = if self.cfg.allow_fail || num == Num::Float {
            &[Op::Add, Op::Sub, Op::Mul, Op::Div]
        } else {
            &[Op::Add, Op::Sub]
        };
        let op = *self.t.choose(ops);
        let a = self.inl(ty, sc, size / 2);
        let b = self.inl(ty, sc, size / 2);
        let hash = self.use_hash(num);
        Tm::Prim(op, num, hash, Box::new(a), Box::new(b))
    }

    fn boolean(&mut self, sc: &Scope, size: usize) -> Tm {
        match self.t.pick(5) {
            0 | 1 | 2 => {
                let mut kinds = vec![(Ty::Int, Num::Int), (Ty::Byte, Num::Byte), (Ty::Char, Num::Char)];
                if self.cfg.allow_float {
                    kinds.push((Ty::Float, Num::Float));
                }
                if !self.cfg.hash_only && self.in_lambda == 0 {
                    kinds.push((Ty::Str, Num::Str));
                }
                let (ty, num) = kinds[self.t.pick(kinds.len())].clone();
                let op = if self.t.chance(1, 2) { Op::Eq } else { Op::Lt };
                let a = self.inl(&ty, sc, size / 2);
                let b = self.inl(&ty, sc, size / 2);
                let hash = if num == Num::Str { false } else { self.use_hash(num) };
                Tm::Prim(op, num, hash, Box::new(a), Box::new(b))
            }
            3 => {
                let a = self.inl(&Ty::Bool, sc, size / 2);
                let b = self.inl(&Ty::Bool, sc, size / 2);
                Tm::And(Box::new(a), Box::new(b))
            }
            _ => {
                let a = self.inl(&Ty::Bool, sc, size / 2);
                let b = self.inl(&Ty::Bool, sc, size / 2);
                Tm::Or(Box::new(a), Box::new(b))
            }
        }
    }

    fn gen_pat_for(&mut self, ty: &Ty, depth: usize, binds: &mut Scope) -> Pat {
        // a pattern that may or may not match, binding variables into `binds`
        let k = self.t.pick(if depth == 0 { 2 } else { 6 });
        match k {
            0 => {
                let x = self.name("m");
                binds.push(SVar { name: x.clone(), ty: ty.clone() });
                Pat::Var(x)
            }
            1 => Pat::Wild,
            5 => {
                let inner = self.gen_pat_for(ty, depth - 1, binds);
                match inner {
                    Pat::Var(_) | Pat::As(..) => inner,
                    p => {
                        let x = self.name("m");
                        binds.push(SVar { name: x.clone(), ty: ty.clone() });
                        Pat::As(x, Box::new(p))
                    }
                }
            }
            _ => match ty {
                Ty::Int | Ty::Byte | Ty::Char | Ty::Str => Pat::Lit(self.lit(ty)),
                Ty::Float => Pat::Wild,
                Ty::Bool => Pat::Con(if self.t.chance(1, 2) { "True" } else { "False" }.into(), vec![]),
                Ty::Tuple(ts) => Pat::Tuple(ts.iter().map(|t| self.gen_pat_for(t, depth - 1, binds)).collect()),
                Ty::Record(_) if !self.allow_record_pat => {
                    self.excluded_second_record_pattern += 1;
                    Pat::Wild
                }
                Ty::Record(fs) => {
                    let mut out = vec![];
                    for (n, t) in fs {
                        if self.t.chance(2, 3) {
                            if self.t.chance(1, 2) {
                                binds.push(SVar { name: n.clone(), ty: t.clone() });
                                out.push((n.clone(), None));
                            } else {
                                let p = self.gen_pat_for(t, depth - 1, binds);
                                out.push((n.clone(), Some(p)));
                            }
                        }
                    }
                    Pat::Record(out)
                }
                Ty::Opt(e) => {
                    if self.t.chance(2, 3) {
                        Pat::Con("Some".into(), vec![self.gen_pat_for(e, depth - 1, binds)])
                    } else {
                        Pat::Con("None".into(), vec![])
                    }
                }
                Ty::Data(d, args) => {
                    let ci = self.t.pick(self.decls[*d].ctors.len());
                    let (c, cargs) = self.decls[*d].ctors[ci].clone();
                    Pat::Con(
                        c,
                        cargs
                            .iter()
                            .map(|a| self.gen_pat_for(&a.subst(args), depth - 1, binds))
                            .collect(),
                    )
                }
                _ => Pat::Wild,
            },
        }
    }

    /// literal-heavy pattern for a tuple of small-domain scalars (columns full of literals)
    fn dense_pat(&mut self, ty: &Ty, binds: &mut Scope) -> Pat {
        match ty {
            Ty::Tuple(ts) => Pat::Tuple(ts.clone().iter().map(|t| self.dense_pat(t, binds)).collect()),
            Ty::Opt(e) => match self.t.pick(5) {
                0 => Pat::Wild,
                1 => Pat::Con("None".into(), vec![]),
                _ => Pat::Con("Some".into(), vec![self.dense_pat(e, binds)]),
            },
            Ty::Bool => match self.t.pick(4) {
                0 => Pat::Wild,
                1 => Pat::Con("True".into(), vec![]),
                _ => Pat::Con("False".into(), vec![]),
            },
            Ty::Int | Ty::Char | Ty::Str | Ty::Byte => match self.t.pick(7) {
                0 => Pat::Wild,
                1 => {
                    let x = self.name("m");
                    binds.push(SVar { name: x.clone(), ty: ty.clone() });
                    Pat::Var(x)
                }
                _ => Pat::Lit(self.lit(ty)),
            },
            _ => Pat::Wild,
        }
    }

    fn scrutinee_ty(&mut self, sc: &Scope) -> Ty {
        // prefer the type of something in scope
        let interesting: Vec<&SVar> = sc
            .iter()
            .filter(|v| !matches!(v.ty, Ty::Fun(..) | Ty::Unit | Ty::Float | Ty::Array(_) | Ty::Var(_)))
            .collect();
        if !interesting.is_empty() && self.t.chance(1, 2) {
            return interesting[self.t.pick(interesting.len())].ty.clone();
        }
        match self.t.pick(7) {
            0 => Ty::Opt(Box::new(self.gen_ty(0, false))),
            1 if !self.decls.is_empty() => {
                let d = self.t.pick(self.decls.len());
                let args = (0..self.decls[d].params).map(|_| self.gen_ty(0, false)).collect();
                Ty::Data(d, args)
            }
            2 => Ty::Tuple(vec![self.gen_ty(0, false), self.gen_ty(1, false)]),
            3 => Ty::Int,
            4 => Ty::Bool,
            5 => Ty::Str,
            _ => self.gen_ty(1, false),
        }
    }

    fn gen_match(&mut self, goal: &Ty, sc: &Scope, size: usize) -> Tm {
        // "dense" matches: a tuple / constructor of small-domain scalars, many arms whose literal
        // sub-patterns come from the same tiny pool as the scrutinee, so that later arms and
        // defaults are reached through partially matching earlier ones
        let dense = self.t.chance(1, 3);
        let saved_small = self.small_lits;
        let (sty, scrut) = if dense {
            self.small_lits = true;
            let comp = |g: &mut Self| -> Ty {
                match g.t.pick(6) {
                    0 | 1 => Ty::Int,
                    2 => Ty::Bool,
                    3 => Ty::Char,
                    4 => Ty::Str,
                    _ => Ty::Opt(Box::new(Ty::Int)),
                }
            };
            let n = 2 + self.t.pick(2);
            let sty = Ty::Tuple((0..n).map(|_| comp(self)).collect());
            let scrut = match &sty {
                Ty::Tuple(ts) => Tm::Tuple(
                    ts.clone()
                        .iter()
                        .map(|t| {
                            // a literal from the pool, or a variable of that type
                            let vars: Vec<String> = sc.iter().filter(|v| v.ty == *t).map(|v| v.name.clone()).collect();
                            if !vars.is_empty() && self.t.chance(1, 3) {
                                Tm::Var(vars[self.t.pick(vars.len())].clone())
                            } else {
                                match t {
                                    Ty::Opt(e) => {
                                        if self.t.chance(1, 3) {
                                            Tm::Var("None".into())
                                        } else {
                                            Tm::Con("Some".into(), vec![self.leaf(e)])
                                        }
                                    }
                                    other => self.leaf(other),
                                }
                            }
                        })
                        .collect(),
                ),
                _ => unreachable!(),
            };
            (sty, scrut)
        } else {
            let sty = self.scrutinee_ty(sc);
            let scrut = self.inl(&sty, sc, size / 3);
            (sty, scrut)
        };
        let mut arms = vec![];
        let complete: Vec<Pat> = match &sty {
            Ty::Opt(_) => vec![Pat::Con("Some".into(), vec![Pat::Wild]), Pat::Con("None".into(), vec![])],
            Ty::Bool => vec![Pat::Con("True".into(), vec![]), Pat::Con("False".into(), vec![])],
            Ty::Data(d, _) => self.decls[*d]
                .ctors
                .iter()
                .map(|(c, a)| Pat::Con(c.clone(), a.iter().map(|_| Pat::Wild).collect()))
                .collect(),
            _ => vec![],
        };
        let n_specific = if dense { 3 + self.t.pick(5) } else { self.t.pick(4) };
        let per = (size / 2) / (n_specific + 2).max(1);
        let avoid_two = self.avoid("two_record_pattern_arms");
        let saved_allow = self.allow_record_pat;
        for _ in 0..n_specific {
            let mut binds = vec![];
            let p = if dense { self.dense_pat(&sty, &mut binds) } else { self.gen_pat_for(&sty, 2, &mut binds) };
            if avoid_two && has_record_pat(&p) {
                self.allow_record_pat = false;
            }
            let mut sc2 = sc.clone();
            sc2.extend(binds);
            let body = self.blk(goal, &sc2, per);
            arms.push((p, body));
        }
        self.allow_record_pat = saved_allow;
        // make the match exhaustive most of the time
        let exhaustive = !self.cfg.allow_fail || !self.t.chance(1, 8);
        if exhaustive {
            if !complete.is_empty() && self.t.chance(1, 2) {
                // one arm per constructor, binding arguments
                let mut order: Vec<usize> = (0..complete.len()).collect();
                // shuffle by tape
                for i in (1..order.len()).rev() {
                    let j = self.t.pick(i + 1);
                    order.swap(i, j);
                }
                for ci in order {
                    let mut binds = vec![];
                    let p = match (&complete[ci], &sty) {
                        (Pat::Con(c, ps), Ty::Data(d, args)) => {
                            let cargs = self.decls[*d].ctors.iter().find(|(n, _)| n == c).unwrap().1.clone();
                            let mut sub = vec![];
                            for (i, _) in ps.iter().enumerate() {
                                let x = self.name("m");
                                binds.push(SVar { name: x.clone(), ty: cargs[i].subst(args) });
                                sub.push(Pat::Var(x));
                            }
                            Pat::Con(c.clone(), sub)
                        }
                        (Pat::Con(c, ps), Ty::Opt(e)) if !ps.is_empty() => {
                            let x = self.name("m");
                            binds.push(SVar { name: x.clone(), ty: (**e).clone() });
                            Pat::Con(c.clone(), vec![Pat::Var(x)])
                        }
                        (p, _) => p.clone(),
                    };
                    let mut sc2 = sc.clone();
                    sc2.extend(binds);
                    let body = self.blk(goal, &sc2, per);
                    arms.push((p, body));
                }
            } else {
                let p = if self.t.chance(1, 2) {
                    Pat::Wild
                } else {
                    Pat::Var(self.name("m"))
                };
                let mut sc2 = sc.clone();
                if let Pat::Var(x) = &p {
                    sc2.push(SVar { name: x.clone(), ty: sty.clone() });
                }
                let body = self.blk(goal, &sc2, per);
                arms.push((p, body));
            }
        } else if arms.is_empty() {
            let mut binds = vec![];
            let p = self.gen_pat_for(&sty, 1, &mut binds);
            let mut sc2 = sc.clone();
            sc2.extend(binds);
            let body = self.blk(goal, &sc2, per);
            arms.push((p, body));
        }
        self.small_lits = saved_small;
        if dense {
            self.feature_dense_match = true;
        }
        Tm::Match(Box::new(scrut), arms)
    }

    fn fun_cands(&self, goal: &Ty, sc: &Scope) -> Vec<(String, Vec<Ty>)> {
        // functions in scope that yield `goal` after k >= 1 arguments
        let mut out = vec![];
        for v in sc {
            let (args, ret) = v.ty.uncurry();
            for k in 1..=args.len() {
                let r = Ty::fun(&args[k..], ret.clone());
                if &r == goal {
                    out.push((v.name.clone(), args[..k].to_vec()));
                }
            }
        }
        out
    }

    fn gen_rec(&mut self, goal: &Ty, sc: &Scope, size: usize) -> Tm {
        self.rec_depth += 1;
        let fuel = self.t.pick(9) as i64;
        let hash = self.cfg.hash_only || self.t.chance(1, 2);
        let lt = |n: &str| -> Tm {
            Tm::Prim(Op::Lt, Num::Int, hash, Box::new(Tm::Var(n.into())), Box::new(Tm::Lit(Lit::Int(1))))
        };
        let dec = |n: &str| -> Tm {
            Tm::Prim(Op::Sub, Num::Int, hash, Box::new(Tm::Var(n.into())), Box::new(Tm::Lit(Lit::Int(1))))
        };
        let shape = self.t.pick(4);
        let f = self.name("r");
        let n = self.name("n");
        let sub = size / 4;
        let res = match shape {
            0 => {
                // non-tail: f n = if n < 1 then base else let r = f (n - 1) in combine
                let base = self.blk(goal, sc, sub);
                let r = self.name("v");
                let mut sc2 = sc.clone();
                sc2.push(SVar { name: n.clone(), ty: Ty::Int });
                sc2.push(SVar { name: r.clone(), ty: goal.clone() });
                let combine = self.blk(goal, &sc2, sub);
                let body = Tm::If(
                    Box::new(lt(&n)),
                    Box::new(base),
                    Box::new(Tm::Let(
                        Box::new(FunBind {
                            name: r,
                            params: vec![],
                            ty: Some(goal.clone()),
                            body: Tm::App(Box::new(Tm::Var(f.clone())), vec![dec(&n)]),
                        }),
                        Box::new(combine),
                    )),
                );
                let fty = Ty::fun(&[Ty::Int], goal.clone());
                Tm::LetRec(
                    vec![FunBind { name: f.clone(), params: vec![n.clone()], ty: Some(fty), body }],
                    Box::new(Tm::App(Box::new(Tm::Var(f.clone())), vec![Tm::Lit(Lit::Int(fuel))])),
                )
            }
            1 => {
                // tail recursive with accumulator
                let acc = self.name("acc");
                let mut sc2 = sc.clone();
                sc2.push(SVar { name: n.clone(), ty: Ty::Int });
                sc2.push(SVar { name: acc.clone(), ty: goal.clone() });
                let step = self.inl(goal, &sc2, sub);
                let init = self.inl(goal, sc, sub);
                let body = Tm::If(
                    Box::new(lt(&n)),
                    Box::new(Tm::Var(acc.clone())),
                    Box::new(Tm::App(Box::new(Tm::Var(f.clone())), vec![dec(&n), step])),
                );
                let fty = Ty::fun(&[Ty::Int, goal.clone()], goal.clone());
                Tm::LetRec(
                    vec![FunBind { name: f.clone(), params: vec![n.clone(), acc], ty: Some(fty), body }],
                    Box::new(Tm::App(Box::new(Tm::Var(f.clone())), vec![Tm::Lit(Lit::Int(fuel)), init])),
                )
            }
            2 => {
                // mutual recursion f <-> g
                let g = self.name("r");
                let n2 = self.name("n");
                let base1 = self.blk(goal, sc, sub);
                let base2 = self.blk(goal, sc, sub);
                let body1 = Tm::If(
                    Box::new(lt(&n)),
                    Box::new(base1),
                    Box::new(Tm::App(Box::new(Tm::Var(g.clone())), vec![dec(&n)])),
                );
                let body2 = Tm::If(
                    Box::new(lt(&n2)),
                    Box::new(base2),
                    Box::new(Tm::App(Box::new(Tm::Var(f.clone())), vec![dec(&n2)])),
                );
                let fty = Ty::fun(&[Ty::Int], goal.clone());
                Tm::LetRec(
                    vec![
                        FunBind { name: f.clone(), params: vec![n.clone()], ty: Some(fty.clone()), body: body1 },
                        FunBind { name: g.clone(), params: vec![n2], ty: Some(fty), body: body2 },
                    ],
                    Box::new(Tm::App(Box::new(Tm::Var(f.clone())), vec![Tm::Lit(Lit::Int(fuel))])),
                )
            }
            _ => {
                // recursion through a closure returned per iteration (over-application at the call)
                let x = self.name("p");
                let arg_ty = self.gen_ty(0, false);
                let mut sc2 = sc.clone();
                sc2.push(SVar { name: n.clone(), ty: Ty::Int });
                sc2.push(SVar { name: x.clone(), ty: arg_ty.clone() });
                self.in_lambda += 1;
                let base = self.blk(goal, &sc2, sub);
                let next_arg = self.inl(&arg_ty, &sc2, sub / 2);
                self.in_lambda -= 1;
                let init_arg = self.inl(&arg_ty, sc, sub / 2);
                let body = Tm::Lam(
                    vec![x.clone()],
                    Box::new(Tm::If(
                        Box::new(lt(&n)),
                        Box::new(base),
                        Box::new(Tm::App(Box::new(Tm::Var(f.clone())), vec![dec(&n), next_arg])),
                    )),
                );
                let fty = Ty::fun(&[Ty::Int, arg_ty], goal.clone());
                Tm::LetRec(
                    vec![FunBind { name: f.clone(), params: vec![n.clone()], ty: Some(fty), body }],
                    Box::new(Tm::App(Box::new(Tm::Var(f.clone())), vec![Tm::Lit(Lit::Int(fuel)), init_arg])),
                )
            }
        };
        self.rec_depth -= 1;
        res
    }

    fn gen_update(&mut self, fs: &[(String, Ty)], sc: &Scope, size: usize) -> Tm {
        // goal = new fields (a prefix, in source order) ++ base fields
        let k = self.t.pick(fs.len() + 1).min(fs.len());
        let base_ty = Ty::Record(fs[k..].to_vec());
        // base: identifier (bound just before) or an arbitrary expression
        let base_expr = self.inl(&base_ty, sc, size / 3);
        let ident_base = self.block && self.t.chance(2, 3);
        let mut upd: Vec<(String, Tm)> = vec![];
        // at most one initialiser may have an observable effect/failure: generate all but one
        // from leaves/variables only
        let n_over = if fs.len() > k { self.t.pick(fs.len() - k + 1) } else { 0 };
        let mut chosen: Vec<usize> = (0..k).collect();
        let mut pool: Vec<usize> = (k..fs.len()).collect();
        for _ in 0..n_over {
            if pool.is_empty() {
                break;
            }
            let i = self.t.pick(pool.len());
            chosen.push(pool.remove(i));
        }
        // source order: new fields keep their relative order; overrides are inserted anywhere
        let mut order: Vec<usize> = chosen[..k].to_vec();
        for &o in &chosen[k..] {
            let pos = self.t.pick(order.len() + 1);
            order.insert(pos, o);
        }
        let rich = if order.is_empty() { 0 } else { self.t.pick(order.len()) };
        for (i, &fi) in order.iter().enumerate() {
            let (n, t) = &fs[fi];
            let e = if i == rich {
                self.inl(t, sc, size / 3)
            } else {
                self.pure_leaf(t, sc)
            };
            let e = self.guard_field(e, t);
            upd.push((n.clone(), e));
        }
        if ident_base {
            let b = self.name("b");
            Tm::Let(
                Box::new(FunBind { name: b.clone(), params: vec![], ty: Some(base_ty.clone()), body: base_expr }),
                Box::new(Tm::Update(upd, Box::new(Tm::Var(b)))),
            )
        } else {
            Tm::Update(upd, Box::new(base_expr))
        }
    }

    /// gluon gives a bare identifier in a record field its *polymorphic* type (records double as
    /// modules), so `if c then { y = None } else { y = Some 1 }` is rejected although it is typable
    /// in HM (judged under C03).  Generated programs keep clear of that: a bare identifier of a
    /// non-scalar type in a field is passed through the identity function.
    fn guard_field(&mut self, e: Tm, ty: &Ty) -> Tm {
        let scalar = matches!(ty, Ty::Int | Ty::Float | Ty::Byte | Ty::Char | Ty::Str | Ty::Bool | Ty::Unit);
        match e {
            Tm::Var(_) if !scalar => {
                self.poly_used.insert("p_id");
                Tm::App(Box::new(Tm::Var("p_id".into())), vec![e])
            }
            e => e,
        }
    }

    /// a term that cannot fail and performs no host call
    fn pure_leaf(&mut self, ty: &Ty, sc: &Scope) -> Tm {
        self.leaf_or_var(ty, sc)
    }

    fn poly(&mut self, goal: &Ty, sc: &Scope, size: usize) -> Tm {
        let sub = size / 3;
        match self.t.pick(10) {
            // polymorphic functions whose result is a structure holding a closure over the
            // parameter: the parameter's type variable and the closure's own must stay apart
            6 => {
                self.poly_used.insert("p_box");
                let a = self.inl(goal, sc, sub);
                let other = self.gen_ty(1, false);
                let b = self.inl(&other, sc, sub);
                let boxed = Tm::App(Box::new(Tm::Var("p_box".into())), vec![a]);
                Tm::App(Box::new(Tm::Proj(Box::new(boxed), "k".into())), vec![b])
            }
            7 => {
                self.poly_used.insert("p_pairf");
                let a = self.inl(goal, sc, sub);
                let other = self.gen_ty(1, false);
                let b = self.inl(&other, sc, sub);
                let boxed = Tm::App(Box::new(Tm::Var("p_pairf".into())), vec![a]);
                Tm::App(Box::new(Tm::Proj(Box::new(boxed), "_0".into())), vec![b])
            }
            8 => {
                self.poly_used.insert("p_keep");
                let other = self.gen_ty(1, false);
                let third = self.gen_ty(0, false);
                let first = self.t.chance(1, 2);
                let (ya, za) = if first { (goal.clone(), other.clone()) } else { (other.clone(), goal.clone()) };
                let y = self.inl(&ya, sc, sub);
                let z = self.inl(&za, sc, sub);
                let b = self.inl(&third, sc, sub);
                let kept = Tm::App(Box::new(Tm::Var("p_keep".into())), vec![y, z]);
                Tm::App(Box::new(Tm::Proj(Box::new(kept), if first { "k" } else { "j" }.into())), vec![b])
            }
            9 => {
                self.poly_used.insert("p_nest");
                let a = self.inl(goal, sc, sub);
                let other = self.gen_ty(1, false);
                let b = self.inl(&other, sc, sub);
                let boxed = Tm::App(Box::new(Tm::Var("p_nest".into())), vec![a]);
                let pair = Tm::App(Box::new(Tm::Proj(Box::new(boxed), "k".into())), vec![b]);
                Tm::Proj(Box::new(pair), "_1".into())
            }
            0 => {
                self.poly_used.insert("p_id");
                let a = self.inl(goal, sc, sub);
                Tm::App(Box::new(Tm::Var("p_id".into())), vec![a])
            }
            1 => {
                self.poly_used.insert("p_const");
                let a = self.inl(goal, sc, sub);
                let other = self.gen_ty(1, false);
                let b = self.inl(&other, sc, sub);
                Tm::App(Box::new(Tm::Var("p_const".into())), vec![a, b])
            }
            2 => {
                self.poly_used.insert("p_twice");
                let f = self.inl(&Ty::Fun(Box::new(goal.clone()), Box::new(goal.clone())), sc, sub);
                let a = self.inl(goal, sc, sub);
                Tm::App(Box::new(Tm::Var("p_twice".into())), vec![f, a])
            }
            3 => {
                self.poly_used.insert("p_compose");
                let a_ty = self.gen_ty(0, false);
                let b_ty = self.gen_ty(1, false);
                let f = self.inl(&Ty::Fun(Box::new(b_ty.clone()), Box::new(goal.clone())), sc, sub);
                let g = self.inl(&Ty::Fun(Box::new(a_ty.clone()), Box::new(b_ty)), sc, sub);
                let a = self.inl(&a_ty, sc, sub);
                Tm::App(Box::new(Tm::Var("p_compose".into())), vec![f, g, a])
            }
            4 => {
                self.poly_used.insert("p_flip");
                let a_ty = self.gen_ty(0, false);
                let b_ty = self.gen_ty(0, false);
                let f = self.inl(&Ty::fun(&[b_ty.clone(), a_ty.clone()], goal.clone()), sc, sub);
                let a = self.inl(&a_ty, sc, sub);
                let b = self.inl(&b_ty, sc, sub);
                Tm::App(Box::new(Tm::Var("p_flip".into())), vec![f, a, b])
            }
            _ => {
                // over-application through the identity: p_id f x
                self.poly_used.insert("p_id");
                let a_ty = self.gen_ty(0, false);
                let f = self.inl(&Ty::Fun(Box::new(a_ty.clone()), Box::new(goal.clone())), sc, sub);
                let a = self.inl(&a_ty, sc, sub);
                Tm::App(Box::new(Tm::Var("p_id".into())), vec![f, a])
            }
        }
    }

    fn wrap_poly(&mut self, body: Tm) -> Tm {
        let mut t = body;
        let defs: Vec<(&str, Vec<&str>, Tm)> = vec![
            ("p_flip", vec!["f", "a", "b"], Tm::App(Box::new(Tm::Var("f".into())), vec![Tm::Var("b".into()), Tm::Var("a".into())])),
            (
                "p_compose",
                vec!["f", "g", "x"],
                Tm::App(
                    Box::new(Tm::Var("f".into())),
                    vec![Tm::App(Box::new(Tm::Var("g".into())), vec![Tm::Var("x".into())])],
                ),
            ),
            (
                "p_twice",
                vec!["f", "x"],
                Tm::App(
                    Box::new(Tm::Var("f".into())),
                    vec![Tm::App(Box::new(Tm::Var("f".into())), vec![Tm::Var("x".into())])],
                ),
            ),
            ("p_const", vec!["a", "b"], Tm::Var("a".into())),
            ("p_id", vec!["x"], Tm::Var("x".into())),
            // let p_box y = { k = \x -> y }
            ("p_box", vec!["y"], Tm::Record(vec![("k".into(), Tm::Lam(vec!["x".into()], Box::new(Tm::Var("y".into()))))])),
            // let p_pairf y = (\x -> y, 1)
            ("p_pairf", vec!["y"], Tm::Tuple(vec![Tm::Lam(vec!["x".into()], Box::new(Tm::Var("y".into()))), Tm::Lit(Lit::Int(1))])),
            // let p_keep y z = { k = \x -> y, j = \w -> z }
            (
                "p_keep",
                vec!["y", "z"],
                Tm::Record(vec![
                    ("k".into(), Tm::Lam(vec!["x".into()], Box::new(Tm::Var("y".into())))),
                    ("j".into(), Tm::Lam(vec!["w".into()], Box::new(Tm::Var("z".into())))),
                ]),
            ),
            // let p_nest y = let g x = (x, y) in { k = g }
            (
                "p_nest",
                vec!["y"],
                Tm::Let(
                    Box::new(FunBind {
                        name: "g".into(),
                        params: vec!["x".into()],
                        ty: None,
                        body: Tm::Tuple(vec![Tm::Var("x".into()), Tm::Var("y".into())]),
                    }),
                    Box::new(Tm::Record(vec![("k".into(), Tm::Var("g".into()))])),
                ),
            ),
        ];
        for (name, params, b) in defs {
            if self.poly_used.contains(name) {
                t = Tm::Let(
                    Box::new(FunBind {
                        name: name.to_string(),
                        params: params.iter().map(|s| s.to_string()).collect(),
                        ty: None,
                        body: b,
                    }),
                    Box::new(t),
                );
            }
        }
        t
    }

    fn avoid(&self, f: &str) -> bool {
        self.cfg.avoid.iter().any(|a| a == f)
    }

    /// a term in an inline position (argument, operand, field, condition, scrutinee): no
    /// let/match there, so that the concrete syntax stays within documented layout forms
    fn inl(&mut self, goal: &Ty, sc: &Scope, size: usize) -> Tm {
        let old = self.block;
        self.block = false;
        let r = self.tm(goal, sc, size);
        self.block = old;
        r
    }

    /// a term in a block position
    fn blk(&mut self, goal: &Ty, sc: &Scope, size: usize) -> Tm {
        let old = self.block;
        self.block = true;
        let r = self.tm(goal, sc, size);
        self.block = old;
        r
    }

    /// main entry: a term of type `goal` (position given by `self.block`)
    pub fn tm(&mut self, goal: &Ty, sc: &Scope, size: usize) -> Tm {
        if size == 0 || self.t.exhausted() {
            return self.leaf_or_var(goal, sc);
        }
        // a record whose scalar fields are bound first and then mentioned with the `{ x }` shorthand
        if self.block {
            if let Ty::Record(fs) = goal {
                let scalars: Vec<(String, Ty)> = fs
                    .iter()
                    .filter(|(_, t)| matches!(t, Ty::Int | Ty::Float | Ty::Byte | Ty::Char | Ty::Str | Ty::Bool))
                    .cloned()
                    .collect();
                if !scalars.is_empty() && self.t.chance(1, 4) {
                    let mut sc2 = sc.clone();
                    let mut binds = vec![];
                    for (n, t) in &scalars {
                        if self.t.chance(2, 3) {
                            let rhs = self.inl(t, &sc2, size / 4);
                            binds.push((n.clone(), t.clone(), rhs));
                            sc2.push(SVar { name: n.clone(), ty: t.clone() });
                        }
                    }
                    let fields: Vec<(String, Tm)> = fs
                        .clone()
                        .iter()
                        .map(|(n, t)| {
                            if binds.iter().any(|(b, _, _)| b == n) {
                                (n.clone(), Tm::Var(n.clone()))
                            } else {
                                let e = self.inl(t, &sc2, size / 4);
                                (n.clone(), self.guard_field(e, t))
                            }
                        })
                        .collect();
                    let mut out = Tm::Record(fields);
                    for (n, t, rhs) in binds.into_iter().rev() {
                        out = Tm::Let(Box::new(FunBind { name: n, params: vec![], ty: Some(t), body: rhs }), Box::new(out));
                    }
                    return out;
                }
            }
        }
        // weighted productions; index 0 is the simplest
        let mut prods: Vec<(u32, u8)> = vec![(3, 0)];
        let composite = matches!(
            goal,
            Ty::Tuple(_) | Ty::Record(_) | Ty::Array(_) | Ty::Opt(_) | Ty::Data(..) | Ty::Fun(..)
        );
        if composite {
            prods.push((6, 1));
        }
        let block = self.block;
        if block {
            prods.push((4, 2)); // let value
            prods.push((4, 3)); // let function
        }
        prods.push((2, 4)); // if
        if block {
            prods.push((4, 5)); // match
        }
        let cands = self.fun_cands(goal, sc);
        if !cands.is_empty() {
            prods.push((8, 6));
        }
        prods.push((1, 7)); // lambda application
        let projs: Vec<(String, String)> = sc
            .iter()
            .flat_map(|v| match &v.ty {
                Ty::Record(fs) => fs
                    .iter()
                    .filter(|(_, t)| t == goal)
                    .map(|(n, _)| (v.name.clone(), n.clone()))
                    .collect::<Vec<_>>(),
                Ty::Tuple(ts) => ts
                    .iter()
                    .enumerate()
                    .filter(|(_, t)| *t == goal)
                    .map(|(i, _)| (v.name.clone(), format!("_{}", i)))
                    .collect(),
                _ => vec![],
            })
            .collect();
        if !projs.is_empty() {
            prods.push((5, 8));
        }
        prods.push((2, 9)); // polymorphic helpers
        match goal {
            Ty::Int | Ty::Byte => prods.push((6, 10)),
            Ty::Float if self.cfg.allow_float => prods.push((6, 10)),
            Ty::Bool => prods.push((6, 10)),
            _ => {}
        }
        if self.cfg.allow_fail {
            prods.push((1, 11));
        }
        if self.cfg.allow_host && *goal == Ty::Int {
            prods.push((3, 12));
        }
        if block {
            prods.push((2, 13)); // let pattern
        }
        if block && self.rec_depth < 2 && size >= 8 {
            prods.push((3, 14));
        }
        if let Ty::Record(fs) = goal {
            if !fs.is_empty() && !self.avoid("record_update") {
                prods.push((4, 15));
            }
        }
        prods.push((1, 16)); // projection out of a fresh record
        if self.cfg.discard_bias && block {
            prods.push((8, 17));
        }
        let total: u32 = prods.iter().map(|p| p.0).sum();
        let mut r = (self.t.next() as u64 * total as u64 >> 16) as u32;
        let mut which = 0u8;
        for (w, id) in &prods {
            if r < *w {
                which = *id;
                break;
            }
            r -= w;
        }
        let sub = size / 2;
        match which {
            0 => self.leaf_or_var(goal, sc),
            1 => self.value(goal, sc, size),
            2 => {
                let ty = self.gen_ty(2, true);
                let v = self.name("v");
                let rhs = self.blk(&ty, sc, sub);
                let mut sc2 = sc.clone();
                sc2.push(SVar { name: v.clone(), ty: ty.clone() });
                let body = self.blk(goal, &sc2, sub);
                Tm::Let(Box::new(FunBind { name: v, params: vec![], ty: Some(ty), body: rhs }), Box::new(body))
            }
            3 => {
                let np = 1 + self.t.pick(3);
                let mut arg_tys: Vec<Ty> = vec![];
                for _ in 0..np {
                    let af = self.t_chance_fun();
                    arg_tys.push(self.gen_ty(1, af));
                }
                let ret = if self.t.chance(1, 2) { goal.clone() } else { self.gen_ty(1, true) };
                // sometimes bind fewer syntactic parameters than the type has arguments, so that the
                // function returns a lambda (over-application at call sites)
                let syntactic = if np > 1 && self.t.chance(1, 3) { np - 1 } else { np };
                let f = self.name("f");
                let mut sc2 = sc.clone();
                let mut params = vec![];
                for a in arg_tys.iter().take(syntactic) {
                    let p = self.name("p");
                    sc2.push(SVar { name: p.clone(), ty: a.clone() });
                    params.push(p);
                }
                let body_ty = Ty::fun(&arg_tys[syntactic..], ret.clone());
                let fbody = self.blk(&body_ty, &sc2, sub);
                let fty = Ty::fun(&arg_tys, ret);
                let mut sc3 = sc.clone();
                sc3.push(SVar { name: f.clone(), ty: fty.clone() });
                let rest = self.blk(goal, &sc3, sub);
                Tm::Let(
                    Box::new(FunBind { name: f, params, ty: Some(fty), body: fbody }),
                    Box::new(rest),
                )
            }
            4 => {
                let c = self.inl(&Ty::Bool, sc, sub / 2);
                let a = self.tm(goal, sc, sub);
                let b = self.tm(goal, sc, sub);
                Tm::If(Box::new(c), Box::new(a), Box::new(b))
            }
            5 => self.gen_match(goal, sc, size),
            6 => {
                let (f, args) = cands[self.t.pick(cands.len())].clone();
                let n = args.len().max(1);
                let xs: Vec<Tm> = args.iter().map(|a| self.inl(a, sc, sub / n)).collect();
                Tm::App(Box::new(Tm::Var(f)), xs)
            }
            7 => {
                let ty = self.gen_ty(1, false);
                let x = self.name("p");
                let mut sc2 = sc.clone();
                sc2.push(SVar { name: x.clone(), ty: ty.clone() });
                self.in_lambda += 1;
                let body = self.inl(goal, &sc2, sub);
                self.in_lambda -= 1;
                let arg = self.inl(&ty, sc, sub);
                Tm::App(Box::new(Tm::Lam(vec![x], Box::new(body))), vec![arg])
            }
            8 => {
                let (v, f) = projs[self.t.pick(projs.len())].clone();
                Tm::Proj(Box::new(Tm::Var(v)), f)
            }
            9 => self.poly(goal, sc, size),
            10 => {
                if *goal == Ty::Bool {
                    self.boolean(sc, size)
                } else {
                    self.arith(goal, sc, size)
                }
            }
            11 => {
                let msgs = ["boom", "e1", "bad thing", ""];
                Tm::Error(msgs[self.t.pick(msgs.len())].to_string())
            }
            12 => {
                self.uses_host = true;
                let h = match self.t.pick(8) {
                    0 if self.cfg.allow_fail => Host::Fail,
                    1 | 2 => Host::Tick,
                    _ => Host::Log,
                };
                let a = self.inl(&Ty::Int, sc, sub);
                // the callee is named directly, or reached through an alias, a record field or a
                // parameter (the optimiser must treat all of them as effectful)
                match self.t.pick(6) {
                    0 if block => {
                        let r = self.name("v");
                        let fty = Ty::Fun(Box::new(Ty::Int), Box::new(Ty::Int));
                        let mut sc2 = sc.clone();
                        sc2.push(SVar { name: r.clone(), ty: fty.clone() });
                        // more calls through the alias may follow in the body
                        let rest = self.tm(goal, &sc2, sub);
                        let call = Tm::App(Box::new(Tm::Var(r.clone())), vec![a]);
                        let body = if self.t.chance(1, 2) {
                            Tm::LetPat(Pat::Wild, Box::new(call), Box::new(rest))
                        } else {
                            let _ = rest;
                            call
                        };
                        Tm::Let(
                            Box::new(FunBind { name: r, params: vec![], ty: Some(fty), body: Tm::HostFn(h) }),
                            Box::new(body),
                        )
                    }
                    1 => Tm::App(
                        Box::new(Tm::Proj(Box::new(Tm::Record(vec![("f".into(), Tm::HostFn(h))])), "f".into())),
                        vec![a],
                    ),
                    2 => {
                        let g = self.name("p");
                        Tm::App(
                            Box::new(Tm::Lam(vec![g.clone()], Box::new(Tm::App(Box::new(Tm::Var(g)), vec![a])))),
                            vec![Tm::HostFn(h)],
                        )
                    }
                    _ => Tm::Host(h, Box::new(a)),
                }
            }
            13 => {
                let ty = if self.t.chance(1, 2) {
                    Ty::Tuple(vec![self.gen_ty(1, false), self.gen_ty(1, false)])
                } else {
                    let t = self.gen_ty(1, false);
                    match t {
                        Ty::Record(_) | Ty::Tuple(_) => t,
                        other => Ty::Record(vec![("x".into(), other), ("y".into(), Ty::Int)]),
                    }
                };
                // the right-hand side is a constructor form, a variable or a call of a function
                // with a signature: a diverging right-hand side of variable type (`let { x } =
                // error ".."`) is a recorded finding (ICE in the compiler)
                let rhs = {
                    let cands = self.fun_cands(&ty, sc);
                    let v = self.var_of(&ty, sc);
                    match (v, cands.is_empty()) {
                        (Some(v), _) if self.t.chance(1, 3) => v,
                        (_, false) if self.t.chance(1, 2) => {
                            let (f, args) = cands[self.t.pick(cands.len())].clone();
                            let n = args.len().max(1);
                            let xs: Vec<Tm> = args.iter().map(|a| self.inl(a, sc, sub / n)).collect();
                            Tm::App(Box::new(Tm::Var(f)), xs)
                        }
                        _ => self.value(&ty, sc, sub),
                    }
                };
                let mut binds = vec![];
                // irrefutable pattern: tuple/record of variables / wildcards / nested irrefutable
                let p = self.irrefutable(&ty, 2, &mut binds);
                let mut sc2 = sc.clone();
                sc2.extend(binds);
                let body = self.blk(goal, &sc2, sub);
                Tm::LetPat(p, Box::new(Tm::Ann(Box::new(rhs), ty)), Box::new(body))
            }
            14 => self.gen_rec(goal, sc, size),
            15 => {
                if let Ty::Record(fs) = goal {
                    let fs = fs.clone();
                    self.gen_update(&fs, sc, size)
                } else {
                    self.leaf_or_var(goal, sc)
                }
            }
            16 => {
                // { .., f = goal, .. }.f
                let mut fs = vec![];
                let n = 1 + self.t.pick(6);
                let at = self.t.pick(n);
                let mut names: Vec<&str> = FIELD_POOL.to_vec();
                let mut fname = String::new();
                for i in 0..n {
                    let nm = names.remove(self.t.pick(names.len())).to_string();
                    if i == at {
                        fname = nm.clone();
                        let e = self.inl(goal, sc, sub);
                        fs.push((nm, self.guard_field(e, goal)));
                    } else {
                        let t = self.gen_ty(0, false);
                        let e = self.pure_leaf(&t, sc);
                        fs.push((nm, self.guard_field(e, &t)));
                    }
                }
                Tm::Proj(Box::new(Tm::Record(fs)), fname)
            }
            _ => {
                // discarded binding with an effect or a failure in it (C04 domain)
                self.uses_host |= self.cfg.allow_host;
                let rhs_ty = if self.t.chance(2, 3) { Ty::Int } else { self.gen_ty(1, false) };
                let rhs = self.blk(&rhs_ty, sc, sub);
                let body = self.blk(goal, sc, sub);
                if self.t.chance(1, 2) {
                    Tm::LetPat(Pat::Wild, Box::new(rhs), Box::new(body))
                } else {
                    let v = self.name("unused");
                    Tm::Let(Box::new(FunBind { name: v, params: vec![], ty: None, body: rhs }), Box::new(body))
                }
            }
        }
    }

    fn t_chance_fun(&mut self) -> bool {
        self.t.chance(1, 4)
    }

    fn irrefutable(&mut self, ty: &Ty, depth: usize, binds: &mut Scope) -> Pat {
        match ty {
            Ty::Tuple(ts) if depth > 0 && self.t.chance(3, 4) => {
                Pat::Tuple(ts.iter().map(|t| self.irrefutable(t, depth - 1, binds)).collect())
            }
            Ty::Record(fs) if depth > 0 && self.t.chance(3, 4) => {
                let mut out = vec![];
                for (n, t) in fs {
                    if self.t.chance(2, 3) {
                        if self.t.chance(1, 2) {
                            binds.push(SVar { name: n.clone(), ty: t.clone() });
                            out.push((n.clone(), None));
                        } else {
                            let p = self.irrefutable(t, depth - 1, binds);
                            out.push((n.clone(), Some(p)));
                        }
                    }
                }
                Pat::Record(out)
            }
            _ => {
                if self.t.chance(1, 5) {
                    Pat::Wild
                } else {
                    let x = self.name("m");
                    binds.push(SVar { name: x.clone(), ty: ty.clone() });
                    Pat::Var(x)
                }
            }
        }
    }
}

// ------------------------------------------------------------------------------------------
// feature analysis (post hoc, on the finished term)

pub fn has_record_pat(p: &Pat) -> bool {
    match p {
        Pat::Record(_) => true,
        Pat::Tuple(ps) | Pat::Con(_, ps) => ps.iter().any(has_record_pat),
        Pat::As(_, q) => has_record_pat(q),
        _ => false,
    }
}

fn pat_vars(p: &Pat, out: &mut Vec<String>) {
    match p {
        Pat::Wild | Pat::Lit(_) => {}
        Pat::Var(v) => out.push(v.clone()),
        Pat::Tuple(ps) | Pat::Con(_, ps) => {
            for p in ps {
                pat_vars(p, out)
            }
        }
        Pat::Record(fs) => {
            for (n, p) in fs {
                match p {
                    None => out.push(n.clone()),
                    Some(p) => pat_vars(p, out),
                }
            }
        }
        Pat::As(v, p) => {
            out.push(v.clone());
            pat_vars(p, out)
        }
    }
}

fn pat_features(p: &Pat, depth: usize, f: &mut BTreeSet<String>) {
    match p {
        Pat::Lit(_) => {
            f.insert("literal_pattern".into());
        }
        Pat::As(_, q) => {
            f.insert("as_pattern".into());
            pat_features(q, depth, f)
        }
        Pat::Tuple(ps) | Pat::Con(_, ps) => {
            if depth > 0 {
                f.insert("nested_pattern".into());
            }
            for q in ps {
                pat_features(q, depth + 1, f)
            }
        }
        Pat::Record(fs) => {
            if depth > 0 {
                f.insert("nested_pattern".into());
            }
            if fs.len() >= 5 {
                f.insert("record_ge5".into());
            }
            f.insert("record_pattern".into());
            for (_, q) in fs {
                if let Some(q) = q {
                    pat_features(q, depth + 1, f)
                }
            }
        }
        _ => {}
    }
}

pub fn free_vars(t: &Tm, bound: &mut Vec<String>, out: &mut BTreeSet<String>) {
    match t {
        Tm::Var(v) => {
            if !bound.contains(v) {
                out.insert(v.clone());
            }
        }
        Tm::Lam(ps, b) => {
            let n = bound.len();
            bound.extend(ps.iter().cloned());
            free_vars(b, bound, out);
            bound.truncate(n);
        }
        Tm::Let(b, body) => {
            let n = bound.len();
            bound.extend(b.params.iter().cloned());
            free_vars(&b.body, bound, out);
            bound.truncate(n);
            bound.push(b.name.clone());
            free_vars(body, bound, out);
            bound.truncate(n);
        }
        Tm::LetRec(bs, body) => {
            let n = bound.len();
            bound.extend(bs.iter().map(|b| b.name.clone()));
            for b in bs {
                let m = bound.len();
                bound.extend(b.params.iter().cloned());
                free_vars(&b.body, bound, out);
                bound.truncate(m);
            }
            free_vars(body, bound, out);
            bound.truncate(n);
        }
        Tm::LetPat(p, e, body) => {
            free_vars(e, bound, out);
            let n = bound.len();
            pat_vars(p, bound);
            free_vars(body, bound, out);
            bound.truncate(n);
        }
        Tm::Match(s, arms) => {
            free_vars(s, bound, out);
            for (p, b) in arms {
                let n = bound.len();
                pat_vars(p, bound);
                free_vars(b, bound, out);
                bound.truncate(n);
            }
        }
        other => {
            // generic children
            let mut kids: Vec<&Tm> = vec![];
            match other {
                Tm::App(a, bs) => {
                    kids.push(a);
                    kids.extend(bs.iter());
                }
                Tm::If(a, b, c) => kids.extend([&**a, &**b, &**c]),
                Tm::Prim(_, _, _, a, b) | Tm::And(a, b) | Tm::Or(a, b) => kids.extend([&**a, &**b]),
                Tm::Tuple(xs) | Tm::Array(xs) | Tm::Con(_, xs) => kids.extend(xs.iter()),
                Tm::Record(fs) => kids.extend(fs.iter().map(|(_, x)| x)),
                Tm::Update(fs, b) => {
                    kids.extend(fs.iter().map(|(_, x)| x));
                    kids.push(b)
                }
                Tm::Proj(a, _) | Tm::Host(_, a) | Tm::Ann(a, _) => kids.push(a),
                _ => {}
            }
            for k in kids {
                free_vars(k, bound, out)
            }
        }
    }
}

pub fn features(p: &Program) -> BTreeSet<String> {
    let mut f = BTreeSet::new();
    // syntactic arities of let-bound functions
    let mut arity: Vec<(String, usize)> = vec![];
    fn go(t: &Tm, f: &mut BTreeSet<String>, arity: &mut Vec<(String, usize)>, in_fun: bool) {
        match t {
            Tm::Lam(ps, b) => {
                let mut fv = BTreeSet::new();
                free_vars(t, &mut vec![], &mut fv);
                fv.retain(|v| !v.starts_with("p_") && !v.starts_with('K') && !matches!(v.as_str(), "True" | "False" | "None" | "Some"));
                if !fv.is_empty() {
                    f.insert("closure_capture".into());
                }
                let _ = ps;
                go(b, f, arity, true);
            }
            Tm::App(func, args) => {
                if let Tm::Var(name) = &**func {
                    if let Some((_, a)) = arity.iter().rev().find(|(n, _)| n == name) {
                        if args.len() < *a {
                            f.insert("partial_application".into());
                        } else if args.len() > *a {
                            f.insert("over_application".into());
                        }
                    }
                    if name == "p_id" && args.len() > 1 {
                        f.insert("over_application".into());
                    }
                } else if let Tm::Lam(ps, _) = &**func {
                    if args.len() > ps.len() {
                        f.insert("over_application".into());
                    }
                }
                go(func, f, arity, in_fun);
                for a in args {
                    go(a, f, arity, in_fun)
                }
            }
            Tm::Let(b, body) => {
                if !b.params.is_empty() {
                    let mut fv = BTreeSet::new();
                    let mut bound = b.params.clone();
                    free_vars(&b.body, &mut bound, &mut fv);
                    fv.retain(|v| !v.starts_with("p_") && !v.starts_with('K') && !matches!(v.as_str(), "True" | "False" | "None" | "Some"));
                    if !fv.is_empty() {
                        f.insert("closure_capture".into());
                        if in_fun {
                            f.insert("upvalue_of_upvalue".into());
                        }
                    }
                    if let Some(t) = &b.ty {
                        if t.uncurry().0.len() > b.params.len() {
                            f.insert("function_returning_function".into());
                        }
                    }
                }
                if b.name.starts_with("unused") {
                    f.insert("unused_binding".into());
                }
                go(&b.body, f, arity, in_fun || !b.params.is_empty());
                let n = arity.len();
                if !b.params.is_empty() {
                    arity.push((b.name.clone(), b.params.len()));
                }
                go(body, f, arity, in_fun);
                arity.truncate(n);
            }
            Tm::LetRec(bs, body) => {
                f.insert("rec".into());
                if bs.len() >= 2 {
                    f.insert("rec_group".into());
                }
                let n = arity.len();
                for b in bs {
                    arity.push((b.name.clone(), b.params.len()));
                }
                for b in bs {
                    // tail call: the recursive call is the last thing in an if branch
                    if let Tm::If(_, _, e) = &b.body {
                        if let Tm::App(g, _) = &**e {
                            if let Tm::Var(_) = &**g {
                                f.insert("tail_call".into());
                            }
                        }
                    }
                    go(&b.body, f, arity, true);
                }
                go(body, f, arity, in_fun);
                arity.truncate(n);
            }
            Tm::LetPat(p, e, body) => {
                pat_features(p, 0, f);
                if matches!(p, Pat::Wild) {
                    f.insert("discarded_binding".into());
                }
                go(e, f, arity, in_fun);
                go(body, f, arity, in_fun);
            }
            Tm::Match(s, arms) => {
                f.insert("match".into());
                if arms.iter().filter(|(p, _)| has_record_pat(p)).count() >= 2 {
                    f.insert("two_record_pattern_arms".into());
                }
                for (p, _) in arms {
                    pat_features(p, 0, f);
                }
                go(s, f, arity, in_fun);
                for (_, b) in arms {
                    go(b, f, arity, in_fun)
                }
            }
            Tm::And(a, b) | Tm::Or(a, b) => {
                f.insert("short_circuit".into());
                go(a, f, arity, in_fun);
                go(b, f, arity, in_fun);
            }
            Tm::Prim(_, _, hash, a, b) => {
                f.insert(if *hash { "hash_primitive" } else { "prelude_operator" }.into());
                go(a, f, arity, in_fun);
                go(b, f, arity, in_fun);
            }
            Tm::Record(fs) => {
                if fs.len() >= 5 {
                    f.insert("record_ge5".into());
                }
                f.insert("record".into());
                if fs.iter().any(|(n, x)| matches!(x, Tm::Var(v) if v == n)) {
                    f.insert("record_field_shorthand".into());
                }
                for (_, x) in fs {
                    go(x, f, arity, in_fun)
                }
            }
            Tm::Update(fs, b) => {
                f.insert("record_update".into());
                if !matches!(**b, Tm::Var(_)) {
                    f.insert("record_update_nonident_base".into());
                }
                for (_, x) in fs {
                    go(x, f, arity, in_fun)
                }
                go(b, f, arity, in_fun);
            }
            Tm::Proj(a, _) => {
                f.insert("projection".into());
                go(a, f, arity, in_fun)
            }
            Tm::Tuple(xs) => {
                f.insert("tuple".into());
                for x in xs {
                    go(x, f, arity, in_fun)
                }
            }
            Tm::Array(xs) => {
                f.insert("array".into());
                for x in xs {
                    go(x, f, arity, in_fun)
                }
            }
            Tm::Con(c, xs) => {
                if c.starts_with('K') {
                    f.insert("user_variant".into());
                }
                for x in xs {
                    go(x, f, arity, in_fun)
                }
            }
            Tm::Error(_) => {
                f.insert("failure".into());
            }
            Tm::HostFn(h) => {
                f.insert("host_call".into());
                f.insert("host_function_as_value".into());
                if *h == Host::Fail {
                    f.insert("failure".into());
                }
            }
            Tm::Host(h, a) => {
                f.insert("host_call".into());
                if *h == Host::Fail {
                    f.insert("failure".into());
                }
                go(a, f, arity, in_fun)
            }
            Tm::If(a, b, c) => {
                go(a, f, arity, in_fun);
                go(b, f, arity, in_fun);
                go(c, f, arity, in_fun);
            }
            Tm::Ann(a, _) => go(a, f, arity, in_fun),
            Tm::Lit(Lit::Int(i)) if *i == i64::MAX || *i == i64::MIN + 1 => {
                f.insert("overflow_prone".into());
            }
            _ => {}
        }
    }
    go(&p.body, &mut f, &mut arity, false);
    f
}

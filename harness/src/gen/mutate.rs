//! AST-level mutations that usually (not always) break typing; used by C02 / C16 / C20.
use super::ast::*;
use crate::tape::Tape;

fn count(t: &Tm) -> usize {
    t.size()
}

/// applies `f` to the n-th node (pre-order, 0 = root)
fn with_nth(t: &mut Tm, n: &mut usize, f: &mut dyn FnMut(&mut Tm)) -> bool {
    if *n == 0 {
        f(t);
        return true;
    }
    *n -= 1;
    let mut kids: Vec<&mut Tm> = vec![];
    match t {
        Tm::Lit(_) | Tm::Unit | Tm::Var(_) | Tm::Error(_) | Tm::HostFn(_) => {}
        Tm::Lam(_, b) => kids.push(b),
        Tm::App(a, bs) => {
            kids.push(a);
            kids.extend(bs.iter_mut());
        }
        Tm::Let(b, body) => {
            kids.push(&mut b.body);
            kids.push(body);
        }
        Tm::LetRec(bs, body) => {
            kids.extend(bs.iter_mut().map(|b| &mut b.body));
            kids.push(body);
        }
        Tm::LetPat(_, a, b) => {
            kids.push(a);
            kids.push(b);
        }
        Tm::If(a, b, c) => {
            kids.push(a);
            kids.push(b);
            kids.push(c);
        }
        Tm::Prim(_, _, _, a, b) | Tm::And(a, b) | Tm::Or(a, b) => {
            kids.push(a);
            kids.push(b);
        }
        Tm::Tuple(xs) | Tm::Array(xs) | Tm::Con(_, xs) => kids.extend(xs.iter_mut()),
        Tm::Record(fs) => kids.extend(fs.iter_mut().map(|(_, x)| x)),
        Tm::Proj(a, _) | Tm::Host(_, a) | Tm::Ann(a, _) => kids.push(a),
        Tm::Update(fs, b) => {
            kids.extend(fs.iter_mut().map(|(_, x)| x));
            kids.push(b);
        }
        Tm::Match(s, arms) => {
            kids.push(s);
            kids.extend(arms.iter_mut().map(|(_, x)| x));
        }
    }
    for k in kids {
        if with_nth(k, n, f) {
            return true;
        }
    }
    false
}

fn var_names(t: &Tm, out: &mut Vec<String>) {
    if let Tm::Var(v) = t {
        out.push(v.clone());
    }
    t.visit(&mut |x| {
        if let Tm::Var(v) = x {
            out.push(v.clone());
        }
    });
}

fn random_lit(t: &mut Tape) -> Tm {
    match t.pick(7) {
        0 => Tm::Lit(Lit::Int(t.pick(5) as i64)),
        1 => Tm::Lit(Lit::Str("s".into())),
        2 => Tm::Lit(Lit::Float(1.5f64.to_bits())),
        3 => Tm::Var("True".into()),
        4 => Tm::Unit,
        5 => Tm::Lit(Lit::Byte(3)),
        _ => Tm::Var("None".into()),
    }
}

/// 1..=k random mutations; returns the kinds applied
pub fn mutate(p: &mut Program, t: &mut Tape, k: usize) -> Vec<&'static str> {
    let mut kinds = vec![];
    let n_mut = 1 + t.pick(k);
    let mut names = vec![];
    var_names(&p.body, &mut names);
    names.sort();
    names.dedup();
    for _ in 0..n_mut {
        let total = count(&p.body);
        let mut target = t.pick(total);
        let which = t.pick(12);
        let a = t.pick(1000);
        let b = t.pick(1000);
        let lit = random_lit(t);
        let name = if names.is_empty() { "x".to_string() } else { names[t.pick(names.len())].clone() };
        let mut kind: &'static str = "none";
        with_nth(&mut p.body, &mut target, &mut |node: &mut Tm| {
            kind = match (which, &mut *node) {
                (0, _) => {
                    *node = lit.clone();
                    "replace_with_literal"
                }
                (1, Tm::App(_, args)) if args.len() >= 2 => {
                    let (i, j) = (a % args.len(), b % args.len());
                    args.swap(i, j);
                    "swap_arguments"
                }
                (2, Tm::App(_, args)) if args.len() >= 2 => {
                    args.pop();
                    "drop_argument"
                }
                (2, Tm::App(_, args)) => {
                    args.push(lit.clone());
                    "add_argument"
                }
                (3, Tm::Record(fs)) if !fs.is_empty() => {
                    let i = a % fs.len();
                    fs.remove(i);
                    "drop_field"
                }
                (4, Tm::Record(fs)) => {
                    fs.push(("q".into(), lit.clone()));
                    "add_field"
                }
                (5, Tm::Record(fs)) if fs.len() >= 2 => {
                    let (i, j) = (a % fs.len(), b % fs.len());
                    fs.swap(i, j);
                    "reorder_fields"
                }
                (6, Tm::Var(v)) => {
                    *v = name.clone();
                    "rename_variable"
                }
                (7, Tm::Match(_, arms)) if arms.len() >= 2 => {
                    let (i, j) = (a % arms.len(), b % arms.len());
                    let pi = arms[i].0.clone();
                    arms[i].0 = arms[j].0.clone();
                    arms[j].0 = pi;
                    "swap_arm_patterns"
                }
                (7, Tm::If(c, x, _)) => {
                    std::mem::swap(c, x);
                    "swap_condition_and_branch"
                }
                (8, Tm::Proj(_, f)) => {
                    *f = ["a", "b", "x", "y", "_0", "_1", "zz"][a % 7].to_string();
                    "change_projection"
                }
                // (a one-element tuple does not exist: `(x)` is `x`)
                (8, Tm::Tuple(xs)) if xs.len() >= 3 => {
                    xs.pop();
                    "drop_tuple_element"
                }
                (9, Tm::Let(bind, _)) => {
                    if bind.ty.is_some() && a % 2 == 0 {
                        bind.ty = None;
                        "remove_annotation"
                    } else {
                        bind.ty = Some([Ty::Int, Ty::Str, Ty::Bool, Ty::Unit][a % 4].clone());
                        "change_annotation"
                    }
                }
                (10, Tm::Prim(_, num, hash, _, _)) => {
                    *num = [Num::Int, Num::Float, Num::Byte][a % 3];
                    *hash = true;
                    "change_primitive_type"
                }
                (11, Tm::Con(c, args)) => {
                    if !args.is_empty() && a % 2 == 0 {
                        args.pop();
                        "drop_constructor_argument"
                    } else {
                        *c = ["Some", "None", "True"][a % 3].to_string();
                        "change_constructor"
                    }
                }
                (_, Tm::Lit(l)) => {
                    *l = match l {
                        Lit::Int(_) => Lit::Str("m".into()),
                        Lit::Str(_) => Lit::Int(1),
                        Lit::Float(_) => Lit::Int(2),
                        Lit::Byte(_) => Lit::Int(3),
                        Lit::Char(_) => Lit::Str("c".into()),
                    };
                    "retype_literal"
                }
                _ => "none",
            };
        });
        if kind != "none" {
            kinds.push(kind);
        }
    }
    kinds
}

pub mod ast;
pub mod eval;
pub mod print;
pub mod prog;
pub mod mutate;
pub mod w;
pub mod small;

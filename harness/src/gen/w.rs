//! Independent algorithm W (with levels) over the ML fragment of the harness AST, extended the
//! way Gluon documents it: ordered closed records, open rows for field access and record
//! patterns, tuples as records `_0, _1, ..`, declared variants, arrays, let-polymorphism with no
//! value restriction, monomorphic recursion of function bindings.
use std::collections::BTreeMap;

use super::ast::*;

#[derive(Clone, Debug, PartialEq)]
pub enum T {
    Var(u32),
    Con(String, Vec<T>),
    Fun(Box<T>, Box<T>),
    /// fields in order; tail: None = closed, Some(v) = open with row variable v
    Rec(Vec<(String, T)>, Option<u32>),
}

#[derive(Clone, Debug)]
enum Slot {
    Unbound(u32), // level
    Ty(T),
    /// a row variable bound to more fields and a new tail; when the row was closed by a closed
    /// record the labels of that record give the order of the whole row
    Row(Vec<(String, T)>, Option<u32>, Option<Vec<String>>),
}

#[derive(Clone, Debug)]
pub struct Scheme {
    vars: Vec<u32>,
    ty: T,
}

pub struct W<'a> {
    decls: &'a [Decl],
    slots: Vec<Slot>,
    level: u32,
    pub steps: u32,
}

type Env = Vec<(String, Scheme)>;

fn con0(n: &str) -> T {
    T::Con(n.to_string(), vec![])
}

pub fn unit() -> T {
    T::Rec(vec![], None)
}

impl<'a> W<'a> {
    pub fn new(decls: &'a [Decl]) -> W<'a> {
        W { decls, slots: vec![], level: 0, steps: 0 }
    }
    fn fresh(&mut self) -> u32 {
        self.slots.push(Slot::Unbound(self.level));
        (self.slots.len() - 1) as u32
    }
    fn fresh_t(&mut self) -> T {
        T::Var(self.fresh())
    }
    /// resolves bound variables at the root (and normalises rows)
    fn prune(&self, t: &T) -> T {
        match t {
            T::Var(v) => match &self.slots[*v as usize] {
                Slot::Ty(t2) => self.prune(t2),
                _ => t.clone(),
            },
            T::Rec(fs, tail) => {
                let mut fields = fs.clone();
                let mut tail = *tail;
                let mut order: Option<Vec<String>> = None;
                while let Some(v) = tail {
                    match &self.slots[v as usize] {
                        Slot::Row(more, t2, ord) => {
                            fields.extend(more.iter().cloned());
                            tail = *t2;
                            if ord.is_some() {
                                order = ord.clone();
                            }
                        }
                        _ => break,
                    }
                }
                if let (Some(order), None) = (&order, tail) {
                    fields.sort_by_key(|(n, _)| order.iter().position(|o| o == n).unwrap_or(usize::MAX));
                }
                T::Rec(fields, tail)
            }
            _ => t.clone(),
        }
    }
    fn occurs(&mut self, v: u32, t: &T, level: u32) -> bool {
        let t = self.prune(t);
        match &t {
            T::Var(u) => {
                if *u == v {
                    return true;
                }
                if let Slot::Unbound(l) = self.slots[*u as usize] {
                    if l > level {
                        self.slots[*u as usize] = Slot::Unbound(level);
                    }
                }
                false
            }
            T::Con(_, args) => args.iter().any(|a| self.occurs(v, a, level)),
            T::Fun(a, b) => self.occurs(v, a, level) || self.occurs(v, b, level),
            T::Rec(fs, tail) => {
                if let Some(u) = tail {
                    if *u == v {
                        return true;
                    }
                    if let Slot::Unbound(l) = self.slots[*u as usize] {
                        if l > level {
                            self.slots[*u as usize] = Slot::Unbound(level);
                        }
                    }
                }
                fs.iter().any(|(_, x)| self.occurs(v, x, level))
            }
        }
    }
    fn bind(&mut self, v: u32, t: &T) -> Result<(), String> {
        let level = match self.slots[v as usize] {
            Slot::Unbound(l) => l,
            _ => unreachable!(),
        };
        if self.occurs(v, t, level) {
            return Err("occurs check".into());
        }
        self.slots[v as usize] = Slot::Ty(t.clone());
        Ok(())
    }
    fn bind_row(&mut self, v: u32, fields: Vec<(String, T)>, tail: Option<u32>) -> Result<(), String> {
        self.bind_row_ordered(v, fields, tail, None)
    }
    fn bind_row_ordered(
        &mut self,
        v: u32,
        fields: Vec<(String, T)>,
        tail: Option<u32>,
        order: Option<Vec<String>>,
    ) -> Result<(), String> {
        let level = match self.slots[v as usize] {
            Slot::Unbound(l) => l,
            _ => unreachable!(),
        };
        if tail == Some(v) {
            return Err("occurs check (row)".into());
        }
        for (_, t) in &fields {
            if self.occurs(v, t, level) {
                return Err("occurs check (row)".into());
            }
        }
        if let Some(u) = tail {
            if let Slot::Unbound(l) = self.slots[u as usize] {
                if l > level {
                    self.slots[u as usize] = Slot::Unbound(level);
                }
            }
        }
        self.slots[v as usize] = Slot::Row(fields, tail, order);
        Ok(())
    }
    pub fn unify(&mut self, a: &T, b: &T) -> Result<(), String> {
        self.steps += 1;
        let a = self.prune(a);
        let b = self.prune(b);
        match (&a, &b) {
            (T::Var(x), T::Var(y)) if x == y => Ok(()),
            (T::Var(x), _) => self.bind(*x, &b),
            (_, T::Var(y)) => self.bind(*y, &a),
            (T::Con(n, xs), T::Con(m, ys)) => {
                if n != m || xs.len() != ys.len() {
                    return Err(format!("{} vs {}", n, m));
                }
                for (x, y) in xs.iter().zip(ys) {
                    self.unify(x, y)?;
                }
                Ok(())
            }
            (T::Fun(a1, b1), T::Fun(a2, b2)) => {
                self.unify(a1, a2)?;
                self.unify(b1, b2)
            }
            (T::Rec(f1, t1), T::Rec(f2, t2)) => match (t1, t2) {
                (None, None) => {
                    if f1.len() != f2.len() || f1.iter().zip(f2).any(|(x, y)| x.0 != y.0) {
                        return Err("closed records with different labels / order".into());
                    }
                    for (x, y) in f1.iter().zip(f2) {
                        self.unify(&x.1, &y.1)?;
                    }
                    Ok(())
                }
                (Some(v), None) => self.open_closed(f1, *v, f2),
                (None, Some(v)) => self.open_closed(f2, *v, f1),
                (Some(v1), Some(v2)) => {
                    for (n, x) in f1 {
                        if let Some((_, y)) = f2.iter().find(|(m, _)| m == n) {
                            self.unify(x, y)?;
                        }
                    }
                    let only1: Vec<(String, T)> = f1.iter().filter(|(n, _)| !f2.iter().any(|(m, _)| m == n)).cloned().collect();
                    let only2: Vec<(String, T)> = f2.iter().filter(|(n, _)| !f1.iter().any(|(m, _)| m == n)).cloned().collect();
                    if v1 == v2 {
                        return if only1.is_empty() && only2.is_empty() { Ok(()) } else { Err("row mismatch".into()) };
                    }
                    let rest = self.fresh();
                    self.bind_row(*v1, only2, Some(rest))?;
                    self.bind_row(*v2, only1, Some(rest))
                }
            },
            _ => Err("shape mismatch".into()),
        }
    }
    fn open_closed(&mut self, open: &[(String, T)], v: u32, closed: &[(String, T)]) -> Result<(), String> {
        for (n, x) in open {
            match closed.iter().find(|(m, _)| m == n) {
                Some((_, y)) => self.unify(x, y)?,
                None => return Err(format!("field {} missing", n)),
            }
        }
        let rest: Vec<(String, T)> = closed.iter().filter(|(n, _)| !open.iter().any(|(m, _)| m == n)).cloned().collect();
        let order: Vec<String> = closed.iter().map(|(n, _)| n.clone()).collect();
        self.bind_row_ordered(v, rest, None, Some(order))
    }

    fn instantiate(&mut self, s: &Scheme) -> T {
        let mut map: BTreeMap<u32, u32> = BTreeMap::new();
        for v in &s.vars {
            let f = self.fresh();
            map.insert(*v, f);
        }
        self.subst(&s.ty, &map)
    }
    fn subst(&self, t: &T, map: &BTreeMap<u32, u32>) -> T {
        let t = self.prune(t);
        match &t {
            T::Var(v) => T::Var(*map.get(v).unwrap_or(v)),
            T::Con(n, args) => T::Con(n.clone(), args.iter().map(|a| self.subst(a, map)).collect()),
            T::Fun(a, b) => T::Fun(Box::new(self.subst(a, map)), Box::new(self.subst(b, map))),
            T::Rec(fs, tail) => T::Rec(
                fs.iter().map(|(n, x)| (n.clone(), self.subst(x, map))).collect(),
                tail.map(|v| *map.get(&v).unwrap_or(&v)),
            ),
        }
    }
    fn free_above(&self, t: &T, level: u32, out: &mut Vec<u32>) {
        let t = self.prune(t);
        match &t {
            T::Var(v) => {
                if let Slot::Unbound(l) = self.slots[*v as usize] {
                    if l > level && !out.contains(v) {
                        out.push(*v);
                    }
                }
            }
            T::Con(_, args) => args.iter().for_each(|a| self.free_above(a, level, out)),
            T::Fun(a, b) => {
                self.free_above(a, level, out);
                self.free_above(b, level, out);
            }
            T::Rec(fs, tail) => {
                fs.iter().for_each(|(_, x)| self.free_above(x, level, out));
                if let Some(v) = tail {
                    if let Slot::Unbound(l) = self.slots[*v as usize] {
                        if l > level && !out.contains(v) {
                            out.push(*v);
                        }
                    }
                }
            }
        }
    }
    fn generalize(&self, t: &T) -> Scheme {
        let mut vars = vec![];
        self.free_above(t, self.level, &mut vars);
        Scheme { vars, ty: self.prune(t) }
    }

    fn from_ty(&mut self, ty: &Ty, params: &[T]) -> T {
        match ty {
            Ty::Int => con0("Int"),
            Ty::Float => con0("Float"),
            Ty::Byte => con0("Byte"),
            Ty::Char => con0("Char"),
            Ty::Str => con0("String"),
            Ty::Bool => con0("Bool"),
            Ty::Unit => unit(),
            Ty::Fun(a, b) => T::Fun(Box::new(self.from_ty(a, params)), Box::new(self.from_ty(b, params))),
            Ty::Tuple(ts) => T::Rec(ts.iter().enumerate().map(|(i, t)| (format!("_{}", i), self.from_ty(t, params))).collect(), None),
            Ty::Record(fs) => T::Rec(fs.iter().map(|(n, t)| (n.clone(), self.from_ty(t, params))).collect(), None),
            Ty::Data(d, args) => T::Con(self.decls[*d].name.clone(), args.iter().map(|a| self.from_ty(a, params)).collect()),
            Ty::Array(t) => T::Con("Array".into(), vec![self.from_ty(t, params)]),
            Ty::Opt(t) => T::Con("Option".into(), vec![self.from_ty(t, params)]),
            Ty::Var(i) => params[*i as usize].clone(),
        }
    }
    /// type of constructor `c`: (argument types, result type), freshly instantiated
    fn ctor(&mut self, c: &str) -> Option<(Vec<T>, T)> {
        match c {
            "True" | "False" => return Some((vec![], con0("Bool"))),
            "None" => {
                let a = self.fresh_t();
                return Some((vec![], T::Con("Option".into(), vec![a])));
            }
            "Some" => {
                let a = self.fresh_t();
                return Some((vec![a.clone()], T::Con("Option".into(), vec![a])));
            }
            _ => {}
        }
        for d in self.decls.iter() {
            if let Some((_, args)) = d.ctors.iter().find(|(n, _)| n == c) {
                let params: Vec<T> = (0..d.params).map(|_| self.fresh_t()).collect();
                let args: Vec<T> = args.clone().iter().map(|a| self.from_ty(a, &params)).collect();
                return Some((args, T::Con(d.name.clone(), params)));
            }
        }
        None
    }
    fn lit(l: &Lit) -> T {
        match l {
            Lit::Int(_) => con0("Int"),
            Lit::Float(_) => con0("Float"),
            Lit::Byte(_) => con0("Byte"),
            Lit::Char(_) => con0("Char"),
            Lit::Str(_) => con0("String"),
        }
    }
    fn pat(&mut self, p: &Pat, env: &mut Env) -> Result<T, String> {
        Ok(match p {
            Pat::Wild => self.fresh_t(),
            Pat::Var(v) => {
                let t = self.fresh_t();
                env.push((v.clone(), Scheme { vars: vec![], ty: t.clone() }));
                t
            }
            Pat::Lit(l) => Self::lit(l),
            Pat::Tuple(ps) => {
                let mut fs = vec![];
                for (i, q) in ps.iter().enumerate() {
                    fs.push((format!("_{}", i), self.pat(q, env)?));
                }
                T::Rec(fs, None)
            }
            Pat::Record(fields) => {
                let mut fs = vec![];
                for (n, q) in fields {
                    let t = match q {
                        Some(q) => self.pat(q, env)?,
                        None => {
                            let t = self.fresh_t();
                            env.push((n.clone(), Scheme { vars: vec![], ty: t.clone() }));
                            t
                        }
                    };
                    fs.push((n.clone(), t));
                }
                let tail = self.fresh();
                T::Rec(fs, Some(tail))
            }
            Pat::Con(c, ps) => {
                let (args, res) = self.ctor(c).ok_or_else(|| format!("unknown constructor {}", c))?;
                if args.len() != ps.len() {
                    return Err("constructor pattern arity".into());
                }
                for (q, a) in ps.iter().zip(&args) {
                    let t = self.pat(q, env)?;
                    self.unify(&t, a)?;
                }
                res
            }
            Pat::As(v, q) => {
                let t = self.pat(q, env)?;
                env.push((v.clone(), Scheme { vars: vec![], ty: t.clone() }));
                t
            }
        })
    }
    fn fun_bind(&mut self, b: &FunBind, env: &Env, self_ty: Option<&T>) -> Result<T, String> {
        let mut env2 = env.clone();
        if let Some(t) = self_ty {
            env2.push((b.name.clone(), Scheme { vars: vec![], ty: t.clone() }));
        }
        let mut ptys = vec![];
        for p in &b.params {
            let t = self.fresh_t();
            env2.push((p.clone(), Scheme { vars: vec![], ty: t.clone() }));
            ptys.push(t);
        }
        let body = self.infer(&b.body, &env2)?;
        let mut t = body;
        for p in ptys.into_iter().rev() {
            t = T::Fun(Box::new(p), Box::new(t));
        }
        Ok(t)
    }
    pub fn infer(&mut self, e: &Tm, env: &Env) -> Result<T, String> {
        self.steps += 1;
        if self.steps > 200_000 {
            return Err("too large".into());
        }
        Ok(match e {
            Tm::Lit(l) => Self::lit(l),
            Tm::Unit => unit(),
            Tm::Var(v) => {
                if v.chars().next().map(|c| c.is_uppercase()).unwrap_or(false) {
                    let (args, res) = self.ctor(v).ok_or_else(|| format!("unknown constructor {}", v))?;
                    let mut t = res;
                    for a in args.into_iter().rev() {
                        t = T::Fun(Box::new(a), Box::new(t));
                    }
                    return Ok(t);
                }
                let s = env.iter().rev().find(|(n, _)| n == v).map(|(_, s)| s.clone()).ok_or_else(|| format!("unbound {}", v))?;
                self.instantiate(&s)
            }
            Tm::Lam(ps, body) => {
                let mut env2 = env.clone();
                let mut ptys = vec![];
                for p in ps {
                    let t = self.fresh_t();
                    env2.push((p.clone(), Scheme { vars: vec![], ty: t.clone() }));
                    ptys.push(t);
                }
                let mut t = self.infer(body, &env2)?;
                for p in ptys.into_iter().rev() {
                    t = T::Fun(Box::new(p), Box::new(t));
                }
                t
            }
            Tm::App(f, args) => {
                let mut ft = self.infer(f, env)?;
                for a in args {
                    let at = self.infer(a, env)?;
                    let r = self.fresh_t();
                    self.unify(&ft, &T::Fun(Box::new(at), Box::new(r.clone())))?;
                    ft = r;
                }
                ft
            }
            Tm::Let(b, body) => {
                self.level += 1;
                // a binding with parameters may call itself (monomorphically)
                let t = if b.params.is_empty() {
                    self.fun_bind(b, env, None)
                } else {
                    let me = self.fresh_t();
                    let t = self.fun_bind(b, env, Some(&me));
                    match t {
                        Ok(t) => self.unify(&me, &t).map(|_| t),
                        Err(e) => Err(e),
                    }
                };
                self.level -= 1;
                let t = t?;
                let s = self.generalize(&t);
                let mut env2 = env.clone();
                env2.push((b.name.clone(), s));
                self.infer(body, &env2)?
            }
            Tm::LetRec(bs, body) => {
                self.level += 1;
                let mut env2 = env.clone();
                let mut tys = vec![];
                for b in bs {
                    let t = self.fresh_t();
                    env2.push((b.name.clone(), Scheme { vars: vec![], ty: t.clone() }));
                    tys.push(t);
                }
                let mut err = None;
                for (b, t) in bs.iter().zip(&tys) {
                    match self.fun_bind(b, &env2, None) {
                        Ok(bt) => {
                            if let Err(e) = self.unify(t, &bt) {
                                err = Some(e);
                                break;
                            }
                        }
                        Err(e) => {
                            err = Some(e);
                            break;
                        }
                    }
                }
                self.level -= 1;
                if let Some(e) = err {
                    return Err(e);
                }
                let mut env3 = env.clone();
                for (b, t) in bs.iter().zip(&tys) {
                    let s = self.generalize(t);
                    env3.push((b.name.clone(), s));
                }
                self.infer(body, &env3)?
            }
            Tm::LetPat(p, rhs, body) => {
                // pattern bindings are not generalised here (Gluon generalises them separately;
                // the generator only binds variables of such patterns that are used monomorphically)
                let rt = self.infer(rhs, env)?;
                let mut env2 = env.clone();
                let pt = self.pat(p, &mut env2)?;
                self.unify(&pt, &rt)?;
                self.infer(body, &env2)?
            }
            Tm::If(c, a, b) => {
                let ct = self.infer(c, env)?;
                self.unify(&ct, &con0("Bool"))?;
                let at = self.infer(a, env)?;
                let bt = self.infer(b, env)?;
                self.unify(&at, &bt)?;
                at
            }
            Tm::Prim(op, num, _, a, b) => {
                let n = match num {
                    Num::Int => "Int",
                    Num::Byte => "Byte",
                    Num::Float => "Float",
                    Num::Char => "Char",
                    Num::Str => "String",
                };
                let at = self.infer(a, env)?;
                self.unify(&at, &con0(n))?;
                let bt = self.infer(b, env)?;
                self.unify(&bt, &con0(n))?;
                match op {
                    Op::Eq | Op::Lt => con0("Bool"),
                    _ => con0(n),
                }
            }
            Tm::And(a, b) | Tm::Or(a, b) => {
                let at = self.infer(a, env)?;
                self.unify(&at, &con0("Bool"))?;
                let bt = self.infer(b, env)?;
                self.unify(&bt, &con0("Bool"))?;
                con0("Bool")
            }
            Tm::Tuple(xs) if xs.len() == 1 => self.infer(&xs[0], env)?,
            Tm::Tuple(xs) => {
                let mut fs = vec![];
                for (i, x) in xs.iter().enumerate() {
                    fs.push((format!("_{}", i), self.infer(x, env)?));
                }
                T::Rec(fs, None)
            }
            Tm::Record(fields) => {
                let mut fs = vec![];
                for (n, x) in fields {
                    fs.push((n.clone(), self.infer(x, env)?));
                }
                T::Rec(fs, None)
            }
            Tm::Proj(x, f) => {
                let xt = self.infer(x, env)?;
                let a = self.fresh_t();
                let r = self.fresh();
                self.unify(&xt, &T::Rec(vec![(f.clone(), a.clone())], Some(r)))?;
                a
            }
            Tm::Con(c, args) => {
                let (ats, res) = self.ctor(c).ok_or_else(|| format!("unknown constructor {}", c))?;
                if ats.len() < args.len() {
                    return Err("constructor over-applied".into());
                }
                for (x, a) in args.iter().zip(&ats) {
                    let xt = self.infer(x, env)?;
                    self.unify(&xt, a)?;
                }
                let mut t = res;
                for a in ats[args.len()..].iter().rev() {
                    t = T::Fun(Box::new(a.clone()), Box::new(t));
                }
                t
            }
            Tm::Array(xs) => {
                let a = self.fresh_t();
                for x in xs {
                    let xt = self.infer(x, env)?;
                    self.unify(&xt, &a)?;
                }
                T::Con("Array".into(), vec![a])
            }
            Tm::Match(s, arms) => {
                let st = self.infer(s, env)?;
                let res = self.fresh_t();
                for (p, body) in arms {
                    let mut env2 = env.clone();
                    let pt = self.pat(p, &mut env2)?;
                    self.unify(&pt, &st)?;
                    let bt = self.infer(body, &env2)?;
                    self.unify(&bt, &res)?;
                }
                res
            }
            Tm::Ann(x, _) => self.infer(x, env)?,
            Tm::Update(..) | Tm::Error(_) | Tm::Host(..) | Tm::HostFn(_) => return Err("outside the fragment".into()),
        })
    }

    /// canonical rendering: variables numbered by first occurrence, fields of open rows sorted
    pub fn render(&self, t: &T) -> String {
        let mut names: Vec<u32> = vec![];
        self.render_(t, &mut names, false)
    }
    fn var_name(names: &mut Vec<u32>, v: u32) -> String {
        let i = match names.iter().position(|x| *x == v) {
            Some(i) => i,
            None => {
                names.push(v);
                names.len() - 1
            }
        };
        format!("?{}", i)
    }
    fn render_(&self, t: &T, names: &mut Vec<u32>, atom: bool) -> String {
        let t = self.prune(t);
        match &t {
            T::Var(v) => Self::var_name(names, *v),
            T::Con(n, args) => {
                if args.is_empty() {
                    n.clone()
                } else {
                    let s = format!("{} {}", n, args.iter().map(|a| self.render_(a, names, true)).collect::<Vec<_>>().join(" "));
                    if atom {
                        format!("({})", s)
                    } else {
                        s
                    }
                }
            }
            T::Fun(a, b) => {
                let s = format!("{} -> {}", self.render_(a, names, true), self.render_(b, names, false));
                if atom {
                    format!("({})", s)
                } else {
                    s
                }
            }
            T::Rec(fs, tail) => {
                let mut fs: Vec<(String, T)> = fs.clone();
                if tail.is_some() {
                    fs.sort_by(|a, b| a.0.cmp(&b.0));
                }
                let inner: Vec<String> = fs.iter().map(|(n, x)| format!("{} : {}", n, self.render_(x, names, false))).collect();
                match tail {
                    None => format!("{{{}}}", inner.join(", ")),
                    Some(v) => format!("{{{} | {}}}", inner.join(", "), Self::var_name(names, *v)),
                }
            }
        }
    }
    /// is the result polymorphic (free variables) / does it have an open row
    pub fn shape(&self, t: &T) -> (bool, bool) {
        let r = self.render(t);
        (r.contains('?'), r.contains(" | ?"))
    }
}

/// principal type of `prog` (rendered canonically), or why W rejects it
pub fn principal(prog: &Program) -> Result<(String, bool, bool), String> {
    let mut w = W::new(&prog.decls);
    w.level = 1;
    let t = w.infer(&prog.body, &vec![])?;
    let r = w.render(&t);
    let (poly, open) = w.shape(&t);
    Ok((r, poly, open))
}

//! Printers from the harness AST to gluon concrete syntax.
use super::ast::*;
use crate::lit;

#[derive(Clone, Copy, Debug, serde::Serialize, serde::Deserialize, PartialEq)]
pub struct Style {
    /// `let x = e in` + newline instead of pure layout
    pub explicit_in: bool,
    /// wrap some sub-expressions in redundant parentheses (every k-th eligible node, 0 = never)
    pub redundant_parens: u8,
    /// line comments at some line ends / own lines (every k-th line, 0 = never)
    pub comments: u8,
    pub crlf: bool,
    /// blank lines between some lines (every k-th, 0 = never)
    pub blank_lines: u8,
    /// print type signatures on annotated function bindings
    pub annotate: bool,
    /// block comments on own lines / at line ends (every k-th line, 0 = never); the texts vary:
    /// runs of `*` before the closing `/`, `/*` and `/` inside, several lines
    #[serde(default)]
    pub block_comments: u8,
}

impl Default for Style {
    fn default() -> Self {
        Style {
            explicit_in: false,
            redundant_parens: 0,
            comments: 0,
            crlf: false,
            blank_lines: 0,
            annotate: true,
            block_comments: 0,
        }
    }
}

pub fn print_ty(t: &Ty, decls: &[Decl]) -> String {
    ty(t, decls, 0)
}

// prec: 0 top, 1 function argument side (left of ->), 2 application argument
fn ty(t: &Ty, decls: &[Decl], prec: u8) -> String {
    match t {
        Ty::Int => "Int".into(),
        Ty::Float => "Float".into(),
        Ty::Byte => "Byte".into(),
        Ty::Char => "Char".into(),
        Ty::Str => "String".into(),
        Ty::Bool => "Bool".into(),
        Ty::Unit => "()".into(),
        Ty::Var(i) => ((b'a' + *i) as char).to_string(),
        Ty::Fun(a, b) => {
            let s = format!("{} -> {}", ty(a, decls, 1), ty(b, decls, 0));
            if prec >= 1 {
                format!("({})", s)
            } else {
                s
            }
        }
        Ty::Tuple(ts) => format!(
            "({})",
            ts.iter().map(|t| ty(t, decls, 0)).collect::<Vec<_>>().join(", ")
        ),
        Ty::Record(fs) => {
            if fs.is_empty() {
                "{ }".into()
            } else {
                format!(
                    "{{ {} }}",
                    fs.iter()
                        .map(|(n, t)| format!("{} : {}", n, ty(t, decls, 0)))
                        .collect::<Vec<_>>()
                        .join(", ")
                )
            }
        }
        Ty::Data(d, args) => {
            let name = &decls[*d].name;
            if args.is_empty() {
                name.clone()
            } else {
                let s = format!(
                    "{} {}",
                    name,
                    args.iter().map(|t| ty(t, decls, 2)).collect::<Vec<_>>().join(" ")
                );
                if prec >= 2 {
                    format!("({})", s)
                } else {
                    s
                }
            }
        }
        Ty::Array(e) => {
            let s = format!("Array {}", ty(e, decls, 2));
            if prec >= 2 {
                format!("({})", s)
            } else {
                s
            }
        }
        Ty::Opt(e) => {
            let s = format!("Option {}", ty(e, decls, 2));
            if prec >= 2 {
                format!("({})", s)
            } else {
                s
            }
        }
    }
}

pub fn print_lit(l: &Lit) -> String {
    match l {
        Lit::Int(i) => lit::int(*i),
        Lit::Float(b) => lit::float(f64::from_bits(*b)),
        Lit::Byte(b) => lit::byte(*b),
        Lit::Char(c) => lit::chr(*c),
        Lit::Str(s) => lit::string(s),
    }
}

fn pat_lit(l: &Lit) -> String {
    // negative literals in patterns are written without parentheses
    match l {
        Lit::Int(i) if *i < 0 && *i != i64::MIN => format!("{}", i),
        _ => print_lit(l),
    }
}

pub fn print_pat(p: &Pat, atom: bool) -> String {
    match p {
        Pat::Wild => "_".into(),
        Pat::Var(v) => v.clone(),
        Pat::Lit(l) => {
            let s = pat_lit(l);
            if atom && s.starts_with('-') {
                format!("({})", s)
            } else {
                s
            }
        }
        Pat::Tuple(ps) => format!(
            "({})",
            ps.iter().map(|p| print_pat(p, false)).collect::<Vec<_>>().join(", ")
        ),
        Pat::Record(fs) => {
            if fs.is_empty() {
                "{ }".into()
            } else {
                format!(
                    "{{ {} }}",
                    fs.iter()
                        .map(|(n, p)| match p {
                            None => n.clone(),
                            Some(p) => format!("{} = {}", n, print_pat(p, false)),
                        })
                        .collect::<Vec<_>>()
                        .join(", ")
                )
            }
        }
        Pat::Con(c, ps) => {
            if ps.is_empty() {
                c.clone()
            } else {
                let s = format!(
                    "{} {}",
                    c,
                    ps.iter().map(|p| print_pat(p, true)).collect::<Vec<_>>().join(" ")
                );
                if atom {
                    format!("({})", s)
                } else {
                    s
                }
            }
        }
        Pat::As(v, p) => {
            let s = format!("{}@{}", v, print_pat(p, true));
            if atom {
                format!("({})", s)
            } else {
                s
            }
        }
    }
}

pub fn op_text(op: Op, num: Num, hash: bool) -> String {
    let sym = match op {
        Op::Add => "+",
        Op::Sub => "-",
        Op::Mul => "*",
        Op::Div => "/",
        Op::Eq => "==",
        Op::Lt => "<",
    };
    if hash {
        let t = match num {
            Num::Int => "Int",
            Num::Byte => "Byte",
            Num::Float => "Float",
            Num::Char => "Char",
            Num::Str => "String",
        };
        format!("#{}{}", t, sym)
    } else {
        sym.to_string()
    }
}

pub struct Printer<'a> {
    pub style: Style,
    pub decls: &'a [Decl],
    counter: u32,
}

const IND: usize = 4;

fn pad(n: usize) -> String {
    " ".repeat(n)
}

impl<'a> Printer<'a> {
    pub fn new(style: Style, decls: &'a [Decl]) -> Printer<'a> {
        Printer {
            style,
            decls,
            counter: 0,
        }
    }

    fn tick(&mut self, k: u8) -> bool {
        if k == 0 {
            return false;
        }
        self.counter += 1;
        self.counter % (k as u32) == 0
    }

    fn is_blocky(&self, t: &Tm) -> bool {
        match t {
            Tm::If(_, a, b) => self.is_blocky(a) || self.is_blocky(b),
            Tm::Lam(_, b) => self.is_blocky(b),
            Tm::Ann(e, _) => self.is_blocky(e),
            _ => t.is_block(),
        }
    }

    fn bind_head(&self, b: &FunBind) -> String {
        let mut s = b.name.clone();
        for p in &b.params {
            s.push(' ');
            s.push_str(p);
        }
        if self.style.annotate {
            if let Some(t) = &b.ty {
                s.push_str(" : ");
                s.push_str(&print_ty(t, self.decls));
            }
        }
        s
    }

    fn rhs(&mut self, e: &Tm, ind: usize) -> String {
        if self.is_blocky(e) {
            format!("\n{}{}", pad(ind + IND), self.block(e, ind + IND))
        } else {
            format!(" {}", self.inline(e, ind, 0))
        }
    }

    fn in_sep(&mut self, rhs_was_block: bool, ind: usize) -> String {
        // explicit `in` only at the end of a one-line binding (the form the book shows)
        if self.style.explicit_in && !rhs_was_block {
            format!(" in\n{}", pad(ind))
        } else {
            format!("\n{}", pad(ind))
        }
    }

    /// prints `t` as a block whose first line starts at column `ind`
    pub fn block(&mut self, t: &Tm, ind: usize) -> String {
        match t {
            Tm::Let(b, body) => {
                let blocky = self.is_blocky(&b.body);
                let head = self.bind_head(b);
                let rhs = self.rhs(&b.body, ind);
                let sep = self.in_sep(blocky, ind);
                format!("let {} ={}{}{}", head, rhs, sep, self.block(body, ind))
            }
            Tm::LetPat(p, e, body) => {
                // `let pat : T = e` when the right-hand side carries an annotation
                let (e, ann) = match &**e {
                    Tm::Ann(inner, t) if self.style.annotate => {
                        (&**inner, format!(" : {}", print_ty(t, self.decls)))
                    }
                    Tm::Ann(inner, _) => (&**inner, String::new()),
                    other => (other, String::new()),
                };
                let blocky = self.is_blocky(e);
                let rhs = self.rhs(e, ind);
                let sep = self.in_sep(blocky, ind);
                format!(
                    "let {}{} ={}{}{}",
                    print_pat(p, false),
                    ann,
                    rhs,
                    sep,
                    self.block(body, ind)
                )
            }
            Tm::LetRec(bs, body) => {
                let mut s = String::from("rec");
                for b in bs {
                    let head = self.bind_head(b);
                    let rhs = self.rhs(&b.body, ind);
                    s.push_str(&format!("\n{}let {} ={}", pad(ind), head, rhs));
                }
                s.push_str(&format!("\n{}in\n{}", pad(ind), pad(ind)));
                s.push_str(&self.block(body, ind));
                s
            }
            Tm::Match(scrut, arms) => {
                // an `if` or a lambda directly in front of `with` would swallow it
                let sp = if matches!(**scrut, Tm::If(..) | Tm::Lam(..)) { 1 } else { 0 };
                let mut s = format!("match {} with", self.inline(scrut, ind, sp));
                for (p, body) in arms {
                    s.push_str(&format!("\n{}| {} ->", pad(ind), print_pat(p, false)));
                    s.push_str(&self.rhs(body, ind));
                }
                s
            }
            Tm::If(c, a, b) if self.is_blocky(a) || self.is_blocky(b) => {
                let c = self.inline(c, ind, 1);
                let a = self.block(a, ind + IND);
                let b = self.block(b, ind + IND);
                format!(
                    "if {} then\n{}{}\n{}else\n{}{}",
                    c,
                    pad(ind + IND),
                    a,
                    pad(ind),
                    pad(ind + IND),
                    b
                )
            }
            _ => self.inline(t, ind, 0),
        }
    }

    fn paren_block(&mut self, t: &Tm, ind: usize) -> String {
        format!("(\n{}{})", pad(ind + IND), self.block(t, ind + IND))
    }

    /// prec: 0 = any expression, 1 = operand of an infix operator, 2 = application argument / atom
    pub fn inline(&mut self, t: &Tm, ind: usize, prec: u8) -> String {
        if self.is_blocky(t) && !matches!(t, Tm::Lam(..)) {
            return self.paren_block(t, ind);
        }
        let wrap = |s: String, needs: bool| if needs { format!("({})", s) } else { s };
        let extra = self.tick(self.style.redundant_parens);
        let s = match t {
            Tm::Lit(l) => print_lit(l),
            Tm::Unit => "()".into(),
            Tm::Var(v) => v.clone(),
            Tm::Lam(ps, body) => {
                let b = if self.is_blocky(body) {
                    format!("\n{}{}", pad(ind + IND), self.block(body, ind + IND))
                } else {
                    format!(" {}", self.inline(body, ind, 0))
                };
                wrap(format!("\\{} ->{}", ps.join(" "), b), prec >= 1)
            }
            Tm::App(f, args) => {
                let mut s = self.inline(f, ind, 2);
                for a in args {
                    s.push(' ');
                    s.push_str(&self.inline(a, ind, 2));
                }
                wrap(s, prec >= 2)
            }
            Tm::If(c, a, b) => {
                let s = format!(
                    "if {} then {} else {}",
                    self.inline(c, ind, 1),
                    self.inline(a, ind, 0),
                    self.inline(b, ind, 0)
                );
                wrap(s, prec >= 1)
            }
            Tm::Prim(op, num, hash, a, b) => {
                let s = format!(
                    "{} {} {}",
                    self.inline(a, ind, 2),
                    op_text(*op, *num, *hash),
                    self.inline(b, ind, 2)
                );
                wrap(s, prec >= 1)
            }
            Tm::And(a, b) => {
                let s = format!("{} && {}", self.inline(a, ind, 2), self.inline(b, ind, 2));
                wrap(s, prec >= 1)
            }
            Tm::Or(a, b) => {
                let s = format!("{} || {}", self.inline(a, ind, 2), self.inline(b, ind, 2));
                wrap(s, prec >= 1)
            }
            Tm::Tuple(xs) => format!(
                "({})",
                xs.iter().map(|x| self.inline(x, ind, 0)).collect::<Vec<_>>().join(", ")
            ),
            Tm::Array(xs) => format!(
                "[{}]",
                xs.iter().map(|x| self.inline(x, ind, 0)).collect::<Vec<_>>().join(", ")
            ),
            Tm::Record(fs) => {
                if fs.is_empty() {
                    "{ }".into()
                } else {
                    format!(
                        "{{ {} }}",
                        fs.iter()
                            .map(|(n, x)| match x {
                                // field shorthand
                                Tm::Var(v) if v == n => n.clone(),
                                _ => format!("{} = {}", n, self.inline(x, ind, 0)),
                            })
                            .collect::<Vec<_>>()
                            .join(", ")
                    )
                }
            }
            Tm::Update(fs, base) => {
                let mut parts: Vec<String> = fs
                    .iter()
                    .map(|(n, x)| format!("{} = {}", n, self.inline(x, ind, 0)))
                    .collect();
                parts.push(format!(".. {}", self.inline(base, ind, 2)));
                format!("{{ {} }}", parts.join(", "))
            }
            Tm::Proj(e, f) => format!("{}.{}", self.inline(e, ind, 2), f),
            Tm::Con(c, args) => {
                if args.is_empty() {
                    c.clone()
                } else {
                    let mut s = c.clone();
                    for a in args {
                        s.push(' ');
                        s.push_str(&self.inline(a, ind, 2));
                    }
                    wrap(s, prec >= 2)
                }
            }
            Tm::Error(m) => wrap(format!("error {}", lit::string(m)), prec >= 2),
            Tm::Host(h, a) => {
                let n = match h {
                    Host::Log => "log",
                    Host::Tick => "tick",
                    Host::Fail => "fail",
                };
                wrap(format!("h.{} {}", n, self.inline(a, ind, 2)), prec >= 2)
            }
            Tm::HostFn(h) => format!(
                "h.{}",
                match h {
                    Host::Log => "log",
                    Host::Tick => "tick",
                    Host::Fail => "fail",
                }
            ),
            // gluon has no expression-level annotation; annotations are only printed on bindings
            Tm::Ann(e, _) => return self.inline(e, ind, prec),
            Tm::Let(..) | Tm::LetRec(..) | Tm::LetPat(..) | Tm::Match(..) => unreachable!(),
        };
        if extra && !s.starts_with('(') {
            format!("({})", s)
        } else {
            s
        }
    }
}

fn print_decls(decls: &[Decl]) -> String {
    let mut s = String::new();
    for d in decls {
        let params: String = (0..d.params).map(|i| format!(" {}", (b'a' + i) as char)).collect();
        s.push_str(&format!("type {}{} =", d.name, params));
        for (c, args) in &d.ctors {
            s.push_str(&format!("\n    | {}", c));
            for a in args {
                s.push(' ');
                s.push_str(&ty(a, decls, 2));
            }
        }
        s.push('\n');
    }
    s
}

/// `header`: extra lines placed first (imports needed when the implicit prelude is off)
pub fn print_program(p: &Program, style: Style, header: &str) -> String {
    let mut out = String::new();
    out.push_str(header);
    if p.uses_host {
        out.push_str("let h = import! h\n");
    }
    out.push_str(&print_decls(&p.decls));
    let mut pr = Printer::new(style, &p.decls);
    out.push_str(&pr.block(&p.body, 0));
    out.push('\n');
    let mut lines: Vec<String> = out.lines().map(|l| l.to_string()).collect();
    if style.comments > 0 || style.blank_lines > 0 {
        let mut res = vec![];
        for (i, l) in lines.iter().enumerate() {
            let k = i as u32 + 1;
            if style.blank_lines > 0 && k % style.blank_lines as u32 == 0 {
                res.push(String::new());
            }
            if style.comments > 0 && k % style.comments as u32 == 0 {
                // whole-line comment at the indentation of the following line
                let ind = l.len() - l.trim_start().len();
                res.push(format!("{}// c{}", pad(ind), i));
            }
            if style.comments > 0 && k % (style.comments as u32 + 1) == 0 && !l.trim().is_empty() {
                res.push(format!("{} // e{}", l, i));
            } else {
                res.push(l.clone());
            }
        }
        lines = res;
    }
    if style.block_comments > 0 {
        // none of the texts starts with `/**` (that would be a documentation comment)
        const TEXTS: &[&str] = &[
            "/* b */", "/* b **/", "/* b ***/", "/* b ****/", "/*b*/", "/***/", "/**/", "/* * */", "/* a ** b */",
            "/* /* b */", "/* b / * */", "/* // b */", "/* \"b */", "/* b\n   c **/", "/* * / */",
        ];
        let mut res = vec![];
        for (i, l) in lines.iter().enumerate() {
            let k = i as u32 + 1;
            let text = TEXTS[(i * 7 + style.block_comments as usize) % TEXTS.len()];
            if k % style.block_comments as u32 == 0 {
                let ind = l.len() - l.trim_start().len();
                res.push(format!("{}{}", pad(ind), text.replace('\n', &format!("\n{}", pad(ind)))));
            }
            // not behind a line comment (the block comment would be part of it)
            if k % (style.block_comments as u32 + 2) == 0 && !l.trim().is_empty() && !l.contains("//") && !text.contains('\n') {
                res.push(format!("{} {}", l, text));
            } else {
                res.push(l.clone());
            }
        }
        lines = res;
    }
    let nl = if style.crlf { "\r\n" } else { "\n" };
    let mut s = lines.join(nl);
    s.push_str(nl);
    s
}
